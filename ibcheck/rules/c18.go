package rules

import (
	"fmt"
	"go/token"
	"go/types"
	"sort"
	"strconv"
	"strings"

	"golang.org/x/tools/go/ssa"

	"ibcheck/eng"
)

func init() { Registry["C18"] = checkC18 }

// urlAttrs: HTML attributes whose value is a URL (or a list of URLs).
var urlAttrs = map[string]bool{
	"href": true, "src": true, "background": true, "action": true, "cite": true, "poster": true,
	"data": true, "longdesc": true, "usemap": true, "codebase": true, "classid": true, "profile": true,
	"manifest": true, "icon": true, "xlink:href": true, "lowsrc": true, "dynsrc": true, "srcset": true,
	"ping": true, "archive": true,
}

const sanRel = "pkg/webui/sanitize"

var forbiddenElements = map[string]bool{"script": true, "style": true, "iframe": true, "frame": true, "frameset": true, "object": true,
	"embed": true, "applet": true, "form": true, "input": true, "button": true, "textarea": true, "select": true, "meta": true, "link": true, "base": true, "svg": true, "math": true}

// variadicStrings returns the constant strings of a variadic []string argument.
func variadicStrings(v ssa.Value) ([]string, bool) {
	sl, ok := v.(*ssa.Slice)
	if !ok {
		if eng.IsNilConst(v) {
			return nil, true
		}
		return nil, false
	}
	al, ok := sl.X.(*ssa.Alloc)
	if !ok {
		return nil, false
	}
	type slot struct {
		i int64
		s string
	}
	var slots []slot
	all := true
	for _, ref := range *al.Referrers() {
		if ia, ok := ref.(*ssa.IndexAddr); ok {
			k, isK := eng.ConstInt(ia.Index)
			if !isK {
				all = false
			}
			for _, r2 := range *ia.Referrers() {
				if st, ok := r2.(*ssa.Store); ok {
					if s, isC := eng.ConstString(st.Val); isC {
						slots = append(slots, slot{k, s})
					} else {
						all = false
					}
				}
			}
		}
	}
	// in argument order
	sort.SliceStable(slots, func(i, j int) bool { return slots[i].i < slots[j].i })
	var out []string
	for _, sl := range slots {
		out = append(out, sl.s)
	}
	return out, all
}

func checkC18(c *Ctx) {
	r := c.R
	r.Explanation = "Decides the configuration and plumbing of the sanitiser, not the absence of parser-differential bypasses: (D1) the bluemonday policy is UGCPolicy() extended only by calls from a confirmed table, with no forbidden element (script, style, iframe, object, form …), no on* attribute, and no unsafe/URL-widening option, and the policy object is otherwise only used through Sanitize; (D2) sanitize.HTML returns exactly policy.Sanitize(styleFilter(input)) on success — no path bypasses either stage; (D3) in the tag rewriter every attribute value written to the output passes html.EscapeString, and a value whose lower-cased key is \"style\" passes the CSS filter before that; (D4) in the CSS state machine a property identifier is written only on the ok edge of the allow-list lookup of its lower-cased name, the state that copies value tokens is entered only from that edge (or from itself), and a scanner error yields the empty string; (D5) TextToHTML uses its input only as the argument of html.EscapeString and everything it inserts is constant markup around already-escaped text; (D6) the web UI message handler feeds msg.HTML() only to sanitize.HTML and msg.Text() only to TextToHTML."
	r.NotDecided = []string{"parser-differential bypasses between x/net/html, bluemonday and browsers", "bluemonday's own policy semantics", "the raw-HTML endpoint /serve/mailbox/{name}/{id}/html, which deliberately serves the unsanitised part (not the UI JSON)"}
	r.Assumptions = []string{"bluemonday.UGCPolicy() admits no active content", "html.EscapeString escapes <, >, &, ' and \""}
	r.Rule("C18/POLICY", "the sanitize.policy initialiser is UGCPolicy() plus only AllowElements(non-forbidden…), AllowAttrs(non on*…), Matching, Globally/OnElements; no other bluemonday policy mutator is called anywhere in the module")
	r.Rule("C18/ORDER", "sanitize.HTML: every success return is policy.Sanitize(x) with x the style filter's output for the input parameter")
	r.Rule("C18/ATTR", "tag rewriter: every flow from a tokenizer attribute value to the output buffer passes html.EscapeString; when lower(key)==\"style\" the escaped value is the CSS filter's result")
	r.Rule("C18/CSS", "CSS filter: Token.Value of an identifier is written only under allowedProperties[lower(value)] ok; the value-copying state is reachable only from that edge; TokenError returns \"\"")
	r.Rule("C18/TEXT", "TextToHTML: the input is used only by html.EscapeString; inserted markup comes from constant format strings")
	r.Rule("C18/UI", "webui message JSON: msg.HTML() flows only into sanitize.HTML, msg.Text() only into web.TextToHTML; the html/text fields served are those results themselves (or a constant), nothing computed from them afterwards")
	c.c18Policy()
	c.c18Order()
	c.c18Total()
	c.c18Attr()
	c.c18CSS()
	c.c18DeclarationEnds()
	c.c18Text()
	c.c18UI()
	// "sanitising never fails or panics": the index class of panics in the sanitiser's own code
	// (a panic there reaches the message handler, and net/http drops the connection)
	c.parserIndex("C18/PANIC/index", "pkg/webui/sanitize", nil, "sanitiser", 0)
}

func (c *Ctx) c18Policy() {
	r, p := c.R, c.P
	allowedCalls := map[string]bool{"UGCPolicy": true, "AllowElements": true, "AllowAttrs": true, "Matching": true, "Globally": true, "OnElements": true, "Sanitize": true, "SanitizeBytes": true, "SanitizeReader": true}
	n := 0
	var probs []string
	var site string
	for _, fn := range p.SSA.Package(p.Pkg(sanRel)).Members {
		_ = fn
	}
	var fns []*ssa.Function
	for _, fn := range p.Funcs {
		fns = append(fns, fn)
	}
	if sp := p.SSA.Package(p.Pkg(sanRel)); sp != nil {
		if init := sp.Func("init"); init != nil {
			fns = append(fns, init)
		}
	}
	for _, fn := range fns {
		if !eng.InModule(fn) && eng.FuncPkgPath(fn) != eng.Mod+"/"+sanRel {
			continue
		}
		eng.EachInstr(fn, func(in ssa.Instruction) {
			cc := eng.CallOf(in)
			if cc == nil {
				return
			}
			o := eng.CalleeObj(cc)
			if o == nil || o.Pkg() == nil || o.Pkg().Path() != "github.com/microcosm-cc/bluemonday" {
				return
			}
			n++
			site = p.InstrPos(in)
			name := o.Name()
			if !allowedCalls[name] {
				probs = append(probs, "bluemonday."+name+" at "+p.InstrPos(in)+" is not in the confirmed table of policy calls (it can widen what the sanitiser lets through)")
				return
			}
			switch name {
			case "AllowElements":
				args, ok := variadicStrings(cc.Args[len(cc.Args)-1])
				if !ok {
					probs = append(probs, "AllowElements with non-constant arguments at "+p.InstrPos(in))
				}
				for _, a := range args {
					if forbiddenElements[strings.ToLower(a)] {
						probs = append(probs, "AllowElements(\""+a+"\") at "+p.InstrPos(in)+": an active-content element is allowed")
					}
				}
			case "AllowAttrs":
				args, ok := variadicStrings(cc.Args[len(cc.Args)-1])
				if !ok {
					probs = append(probs, "AllowAttrs with non-constant arguments at "+p.InstrPos(in))
				}
				for _, a := range args {
					la := strings.ToLower(a)
					if strings.HasPrefix(la, "on") || la == "srcdoc" || la == "formaction" {
						probs = append(probs, "AllowAttrs(\""+a+"\") at "+p.InstrPos(in)+": an event-handler / active attribute is allowed")
					}
					if urlAttrs[la] {
						probs = append(probs, "AllowAttrs(\""+a+"\") at "+p.InstrPos(in)+": a URL-valued attribute is allowed by hand; bluemonday checks URL schemes only for the attributes and elements of its own link policy, so a javascript: URL in this attribute is passed through")
					}
				}
			}
		})
	}
	r.Floor("C18/POLICY", "bluemonday calls in the module", n, 1)
	sort.Strings(probs)
	if len(probs) > 0 {
		r.Bad("C18/POLICY", "sanitize.policy", site, "%s", strings.Join(probs, "; "))
	} else {
		r.Ok("C18/POLICY", "sanitize.policy", site, "%d bluemonday calls, all from the confirmed table; no forbidden element or on* attribute", n)
	}
}

// c18Total: sanitising cannot fail on malformed or oversized markup. The tag rewriter reads from
// an in-memory reader, so its only failure source would be a token-buffer limit on the tokenizer.
func (c *Ctx) c18Total() {
	r, p := c.R, c.P
	r.Rule("C18/TOTAL", "the HTML tokenizer of the tag rewriter has no token-buffer limit (no SetMaxBuf with a non-zero bound): with a limit, one long token makes sanitize.HTML fail instead of sanitising")
	var bad []string
	n := 0
	for _, fn := range pkgFuncs(p, sanRel) {
		fn := fn
		eng.EachInstr(fn, func(in ssa.Instruction) {
			ci, ok := in.(ssa.CallInstruction)
			if !ok {
				return
			}
			name := eng.CalleeName(ci.Common())
			if strings.HasSuffix(name, "html.NewTokenizer") || strings.HasSuffix(name, "html.NewTokenizerFragment") {
				n++
			}
			if strings.HasSuffix(name, "html.Tokenizer).SetMaxBuf") {
				args := ci.Common().Args
				if k, isK := eng.ConstInt(args[len(args)-1]); isK && k == 0 {
					return
				}
				bad = append(bad, p.InstrPos(in))
			}
		})
	}
	r.Floor("C18/TOTAL", "tokenizers created in the sanitiser", n, 1)
	if len(bad) > 0 {
		r.Bad("C18/TOTAL", "tokenizer-unbounded", bad[0], "the tokenizer is given a token-buffer limit at %s: a single text run, comment, attribute value or raw-text element longer than the limit makes the tokenizer fail with ErrBufferExceeded, sanitize.HTML returns an error and the message body is not shown", strings.Join(bad, ", "))
	} else {
		r.Ok("C18/TOTAL", "tokenizer-unbounded", "", "no token-buffer limit is set on the tokenizer")
	}
}

func (c *Ctx) c18Order() {
	r, p := c.R, c.P
	fn := p.Func(sanRel, "HTML")
	tagFilter := c.c18TagFilter()
	if fn == nil || tagFilter == nil {
		return
	}
	var probs []string
	n := 0
	for _, ret := range successReturns(fn) {
		n++
		res := eng.ReturnResults(ret)
		v := res[0]
		for _, a := range eng.ValueAliases(v) {
			_ = a
		}
		v = resolveCell(v)
		call, ok := v.(*ssa.Call)
		if !ok || eng.CalleeName(call.Common()) != "(*github.com/microcosm-cc/bluemonday.Policy).Sanitize" {
			probs = append(probs, "success return at "+p.InstrPos(ret)+" does not return policy.Sanitize(…)")
			continue
		}
		// its argument = result of a module function that reaches the tag filter, applied to the parameter
		arg := resolveCell(call.Call.Args[1])
		okArg := false
		if e, ok := arg.(*ssa.Extract); ok {
			if fc, ok := e.Tuple.(*ssa.Call); ok {
				if g := eng.StaticCallee(fc.Common()); g != nil && (g == tagFilter || reachesSync(g, tagFilter)) {
					if prm, isP := fc.Call.Args[0].(*ssa.Parameter); isP && prm.Parent() == fn {
						okArg = true
					}
				}
			}
		}
		// the wrapper inlined: buf := &bytes.Buffer{}; styleTagFilter(buf, strings.NewReader(input))
		// succeeded; policy.Sanitize(buf.String()) — buf written by nothing else
		if sc, ok := arg.(*ssa.Call); ok && !okArg && eng.CalleeName(sc.Common()) == "(*bytes.Buffer).String" {
			if buf, isAl := sc.Call.Args[0].(*ssa.Alloc); isAl && buf.Referrers() != nil {
				var filterCall *ssa.Call
				clean := true
				for _, ref := range *buf.Referrers() {
					switch x := ref.(type) {
					case *ssa.Call:
						if x != sc {
							clean = false
						}
					case *ssa.MakeInterface:
						for _, r2 := range *x.Referrers() {
							fc, isCall := r2.(*ssa.Call)
							if !isCall || eng.StaticCallee(fc.Common()) != tagFilter || filterCall != nil || len(fc.Call.Args) != 2 || fc.Call.Args[0] != ssa.Value(x) {
								clean = false
								continue
							}
							filterCall = fc
						}
					case *ssa.DebugRef:
					default:
						clean = false
					}
				}
				if clean && filterCall != nil {
					src := eng.Unwrap(filterCall.Call.Args[1])
					if rc, isCall := src.(*ssa.Call); isCall && eng.CalleeName(rc.Common()) == "strings.NewReader" {
						if prm, isP := rc.Call.Args[0].(*ssa.Parameter); isP && prm.Parent() == fn {
							ev := errResultOf(filterCall)
							if eng.Dominates(filterCall, call) && (ev == nil || eng.KnownNil(ev, call.Block()) || eng.SucceededBefore(filterCall, ev, call)) {
								okArg = true
							}
						}
					}
				}
			}
		}
		if !okArg {
			probs = append(probs, "policy.Sanitize at "+p.InstrPos(call)+" is not applied to the style filter's output for the input")
		}
		// the stage between the input and the policy must not be skippable: a wrapper around
		// the tag filter returns, on every success path, something other than (a view of) its
		// own input, after a successful run of the tag filter
		if e, ok := arg.(*ssa.Extract); ok && okArg {
			if fc, ok := e.Tuple.(*ssa.Call); ok {
				if g := eng.StaticCallee(fc.Common()); g != nil && g != tagFilter && len(g.Blocks) > 0 {
					var filterCall *ssa.Call
					eng.EachInstr(g, func(in ssa.Instruction) {
						if c2, ok := in.(*ssa.Call); ok {
							if h := eng.StaticCallee(c2.Common()); h != nil && (h == tagFilter || reachesSync(h, tagFilter)) {
								filterCall = c2
							}
						}
					})
					for _, gret := range successReturns(g) {
						rv := eng.Unwrap(resolveCell(eng.ReturnResults(gret)[0]))
						viaInput := false
						for _, prm := range g.Params {
							if rv == ssa.Value(prm) {
								viaInput = true
							}
						}
						if sl, isSl := rv.(*ssa.Slice); isSl {
							for _, prm := range g.Params {
								if sl.X == ssa.Value(prm) {
									viaInput = true
								}
							}
						}
						switch {
						case viaInput:
							probs = append(probs, shortFn(g)+" can return its input unfiltered at "+p.InstrPos(gret)+": markup that skips the style filter reaches the policy, which accepts any style value")
						case filterCall == nil || !eng.Dominates(filterCall, gret) || errResultOf(filterCall) != nil && !eng.KnownNil(errResultOf(filterCall), gret.Block()) && !eng.SucceededBefore(filterCall, errResultOf(filterCall), gret):
							probs = append(probs, shortFn(g)+" can report success at "+p.InstrPos(gret)+" without a successful run of the tag filter")
						}
					}
				}
			}
		}
		// the policy receiver is the package variable
		if u, ok := call.Call.Args[0].(*ssa.UnOp); !ok || u.Op != token.MUL {
			probs = append(probs, "Sanitize is not called on the package policy")
		} else if g, ok := u.X.(*ssa.Global); !ok || g.Name() != "policy" {
			probs = append(probs, "Sanitize is not called on the package policy")
		}
	}
	r.Floor("C18/ORDER", "success returns of sanitize.HTML", n, 1)
	if len(probs) > 0 {
		r.Bad("C18/ORDER", "sanitize.HTML", p.Pos(fn.Pos()), "%s", strings.Join(probs, "; "))
	} else {
		r.Ok("C18/ORDER", "sanitize.HTML", p.Pos(fn.Pos()), "returns policy.Sanitize(styleFilter(input)) on every success path")
	}
}

func (c *Ctx) c18Attr() {
	r, p := c.R, c.P
	fn := c.c18TagFilter()
	cssFilter := p.Func(sanRel, "sanitizeStyle")
	if fn == nil || cssFilter == nil {
		return
	}
	// source: Extract #1 (val) of TagAttr
	var tagAttr *ssa.Call
	for g := range p.SyncReach(fn) {
		eng.EachInstr(g, func(in ssa.Instruction) {
			if call, ok := in.(*ssa.Call); ok && strings.HasSuffix(eng.CalleeName(call.Common()), "html.Tokenizer).TagAttr") {
				tagAttr = call
			}
		})
	}
	if tagAttr == nil {
		r.Bad("C18/ATTR", "tag-rewriter", p.Pos(fn.Pos()), "the tag rewriter no longer iterates attributes with Tokenizer.TagAttr")
		return
	}
	val := extractOf(tagAttr, 1)
	key := extractOf(tagAttr, 0)
	// forward taint; EscapeString sanitises. Values stored into a struct field are followed
	// field-wise: every load of that field in the package carries the taint (a record type
	// such as html.Attribute that holds the attributes between reading and writing them).
	sanFns := pkgFuncs(p, sanRel)
	type taintRes struct {
		tainted map[ssa.Value]bool
		fields  map[*types.Var]bool
		escapes []*ssa.Call
		leaks   []string
		filters []*ssa.Call // cssFilter calls on a tainted value
	}
	// filterTable: v is the function looked up, under the lower-cased attribute name, in a
	// package-level table of per-attribute filters whose "style" entry is the CSS filter
	// (attrSanitizers[strings.ToLower(string(key))]). Returns the lookup.
	var keyTaint map[ssa.Value]bool
	tableOK := map[*ssa.Global]int{} // 0 unknown, 1 yes, 2 no
	filterTable := func(v ssa.Value) *ssa.Lookup {
		lk, ok := v.(*ssa.Lookup)
		if !ok {
			if ex, isEx := v.(*ssa.Extract); isEx && ex.Index == 0 {
				lk, ok = ex.Tuple.(*ssa.Lookup)
			}
		}
		if !ok || lk == nil {
			return nil
		}
		u, ok := lk.X.(*ssa.UnOp)
		if !ok || u.Op != token.MUL {
			return nil
		}
		g, ok := u.X.(*ssa.Global)
		if !ok || g.Pkg == nil || g.Pkg.Pkg.Path() != eng.Mod+"/"+sanRel {
			return nil
		}
		// index: lower(key)
		lc, ok := lk.Index.(*ssa.Call)
		if !ok || eng.CalleeName(lc.Common()) != "strings.ToLower" {
			return nil
		}
		arg := lc.Call.Args[0]
		if !(keyTaint[arg] || keyTaint[eng.StripConv(arg)] || keyTaint[p.Actual(eng.StripConv(arg))]) {
			return nil
		}
		if tableOK[g] == 0 {
			tableOK[g] = 2
			style, clean := false, true
			scan := append([]*ssa.Function{}, sanFns...)
			if sp := p.SSA.Package(p.Pkg(sanRel)); sp != nil {
				if ini := sp.Func("init"); ini != nil {
					have := false
					for _, f := range scan {
						if f == ini {
							have = true
						}
					}
					if !have {
						scan = append(scan, ini)
					}
				}
			}
			for _, fn2 := range scan {
				isInit := fn2.Name() == "init" && fn2.Parent() == nil
				eng.EachInstr(fn2, func(in ssa.Instruction) {
					switch y := in.(type) {
					case *ssa.Store:
						if y.Addr == ssa.Value(g) {
							mm, isMake := y.Val.(*ssa.MakeMap)
							if !isInit || !isMake {
								clean = false
								return
							}
							if mm.Referrers() != nil {
								for _, ref := range *mm.Referrers() {
									if mu, ok := ref.(*ssa.MapUpdate); ok {
										k, isC := eng.ConstString(mu.Key)
										f, _, isF := eng.FuncValueOf(mu.Value)
										if !isC || !isF {
											clean = false
										} else if k == "style" {
											style = f == cssFilter || wrapsFilter(f, cssFilter)
										}
									}
								}
							}
						}
					case *ssa.MapUpdate:
						if lu, ok := y.Map.(*ssa.UnOp); ok && lu.X == ssa.Value(g) {
							clean = false
						}
					}
				})
			}
			if style && clean {
				tableOK[g] = 1
			}
		}
		if tableOK[g] != 1 {
			return nil
		}
		return lk
	}
	propagate := func(src ssa.Value, isValue bool) taintRes {
		res := taintRes{tainted: map[ssa.Value]bool{src: true}, fields: map[*types.Var]bool{}}
		work := []ssa.Value{src}
		add := func(v ssa.Value) {
			if !res.tainted[v] {
				res.tainted[v] = true
				work = append(work, v)
			}
		}
		taintField := func(f *types.Var) {
			if f == nil || res.fields[f] {
				return
			}
			res.fields[f] = true
			for _, g := range sanFns {
				eng.EachInstr(g, func(in ssa.Instruction) {
					switch y := in.(type) {
					case *ssa.UnOp:
						if fa, ok := y.X.(*ssa.FieldAddr); ok && y.Op == token.MUL && eng.SameField(eng.FieldOfAddr(fa), f) {
							add(y)
						}
					case *ssa.Field:
						if st, ok := y.X.Type().Underlying().(*types.Struct); ok && y.Field < st.NumFields() && eng.SameField(st.Field(y.Field), f) {
							add(y)
						}
					}
				})
			}
		}
		for len(work) > 0 {
			v := work[len(work)-1]
			work = work[:len(work)-1]
			if v.Referrers() == nil {
				continue
			}
			for _, ref := range *v.Referrers() {
				switch x := ref.(type) {
				case *ssa.Convert, *ssa.ChangeType, *ssa.Phi, *ssa.Slice, *ssa.Extract:
					add(ref.(ssa.Value))
				case *ssa.Call:
					name := eng.CalleeName(x.Common())
					switch {
					case strings.HasSuffix(name, "html.EscapeString"):
						res.escapes = append(res.escapes, x)
					case eng.StaticCallee(x.Common()) == cssFilter:
						res.filters = append(res.filters, x)
						add(x)
					case eng.StaticCallee(x.Common()) != nil && eng.FuncPkgPath(eng.StaticCallee(x.Common())) == eng.Mod+"/"+sanRel:
						// a package helper: the taint continues in its parameter and in its result
						g := eng.StaticCallee(x.Common())
						for i, a := range x.Call.Args {
							if a == v && i < len(g.Params) {
								add(g.Params[i])
							}
						}
					case eng.StaticCallee(x.Common()) == nil && !x.Call.IsInvoke() && filterTable(x.Call.Value) != nil:
						// the per-attribute filter selected from the table by the attribute's name
						res.filters = append(res.filters, x)
						add(x)
					case eng.StaticCallee(x.Common()) == nil && !x.Call.IsInvoke() && c18FuncOf(p, x.Call.Value) != nil:
						// a callback the attribute loop runs for each attribute (visit(key, val)):
						// the taint continues in the function literal's parameters
						g := c18FuncOf(p, x.Call.Value)
						for i, a := range x.Call.Args {
							if a == v && i < len(g.Params) {
								add(g.Params[i])
							}
						}
					case name == "builtin.append":
						if isValue {
							// appending a string to a []byte writes it out; appending records to a
							// slice of records only moves them
							if sl, ok := x.Type().Underlying().(*types.Slice); ok {
								if b, ok := sl.Elem().Underlying().(*types.Basic); ok && b.Kind() == types.Uint8 {
									res.leaks = append(res.leaks, "attribute value appended to the output at "+p.InstrPos(x)+" without html.EscapeString")
								}
							}
						}
					case name == "strings.ToLower" || name == "builtin.len":
						if !isValue {
							add(x)
						}
					default:
						if isValue {
							res.leaks = append(res.leaks, "attribute value passed to "+name+" at "+p.InstrPos(x))
						}
					}
				case *ssa.BinOp, *ssa.DebugRef:
				case *ssa.Return:
					// a helper returns the raw value: it is tainted at every call site
					for _, cs := range p.StaticCallSites(x.Parent()) {
						if cv, ok := cs.Instr.(*ssa.Call); ok {
							add(cv)
						}
					}
				case *ssa.Store:
					if fa, ok := x.Addr.(*ssa.FieldAddr); ok && x.Val == v {
						taintField(eng.FieldOfAddr(fa))
						continue
					}
					if isValue {
						res.leaks = append(res.leaks, "attribute value stored at "+p.InstrPos(x))
					}
				}
			}
		}
		return res
	}
	tk := propagate(key, false)
	keyTaint = tk.tainted
	tv := propagate(val, true)
	tainted, escapes, leaks := tv.tainted, tv.escapes, tv.leaks
	_ = tainted
	var probs []string
	probs = append(probs, leaks...)
	if len(escapes) == 0 {
		probs = append(probs, "attribute values are never escaped")
	}
	// style: the escaped value is one of (raw, cssFilter(raw)), the filter's result being
	// selected under lower(key)=="style" and the raw value only on the other side. The
	// selection is a phi, or the returns of a package helper (filterAttrValue(key, val)).
	type alt struct {
		v  ssa.Value
		at *ssa.BasicBlock
		to *ssa.BasicBlock // the block of the phi that merges the alternatives, if any
	}
	var alternatives func(v ssa.Value, depth int) []alt
	alternatives = func(v ssa.Value, depth int) []alt {
		if depth > 3 {
			return []alt{{v, nil, nil}}
		}
		switch x := v.(type) {
		case *ssa.Parameter:
			// the escape sits in a helper (appendAttr(b, key, value)): what its only call
			// site passes
			if w := p.Actual(x); w != ssa.Value(x) {
				return alternatives(w, depth+1)
			}
		case *ssa.Phi:
			var out []alt
			for i, e := range x.Edges {
				sub := alternatives(e, depth+1)
				for _, a := range sub {
					if a.at == nil {
						a.at = x.Block().Preds[i]
						a.to = x.Block()
					}
					out = append(out, a)
				}
			}
			return out
		case *ssa.Extract:
			call, ok := x.Tuple.(*ssa.Call)
			if !ok {
				break
			}
			g := eng.StaticCallee(call.Common())
			if g == nil || eng.FuncPkgPath(g) != eng.Mod+"/"+sanRel || len(g.Blocks) == 0 || g == cssFilter {
				break
			}
			var out []alt
			eng.EachInstr(g, func(in ssa.Instruction) {
				ret, ok := in.(*ssa.Return)
				if !ok {
					return
				}
				res := eng.ReturnResults(ret)
				if x.Index >= len(res) {
					return
				}
				for _, a := range alternatives(res[x.Index], depth+1) {
					if a.at == nil {
						a.at = ret.Block()
					}
					out = append(out, a)
				}
			})
			if len(out) > 0 {
				return out
			}
		}
		return []alt{{v, nil, nil}}
	}
	underStyle := func(at *ssa.BasicBlock) bool {
		if at == nil {
			return false
		}
		for _, b := range at.Parent().Blocks {
			for k := 0; k < len(b.Succs) && len(b.Succs) == 2; k++ {
				rel, ok := eng.EdgeRel(b, k)
				if !ok || rel.Op != token.EQL {
					continue
				}
				s, isC := eng.ConstString(rel.Y)
				lc, isCall := rel.X.(*ssa.Call)
				if !isC || s != "style" || !isCall || eng.CalleeName(lc.Common()) != "strings.ToLower" {
					continue
				}
				if cv, ok := lc.Call.Args[0].(*ssa.Convert); !ok || (cv.X != key && p.Actual(cv.X) != key) {
					continue
				}
				if eng.EdgeDominates(b, k, at) || b.Succs[k] == at {
					return true
				}
			}
		}
		return false
	}
	styleOK := false
	for _, esc := range escapes {
		alts := alternatives(esc.Call.Args[0], 0)
		if len(alts) < 2 {
			continue
		}
		filtered, rawUnder := false, false
		// table form: the value is filter(raw) where the table has a filter for the attribute's
		// name, and the raw value only where the lookup came back nil
		var tableLk *ssa.Lookup
		// the filter's result: the call itself, or the first of its results (value, keep)
		dynCall := func(v ssa.Value) *ssa.Call {
			if ex, isEx := v.(*ssa.Extract); isEx && ex.Index == 0 {
				v = ex.Tuple
			}
			if fc, isCall := v.(*ssa.Call); isCall && eng.StaticCallee(fc.Common()) == nil && !fc.Call.IsInvoke() {
				return fc
			}
			return nil
		}
		for _, a := range alts {
			if fc := dynCall(a.v); fc != nil {
				if lk := filterTable(fc.Call.Value); lk != nil {
					tableLk = lk
				}
			}
		}
		if tableLk != nil {
			okTable := true
			for _, a := range alts {
				if fc := dynCall(a.v); fc != nil && filterTable(fc.Call.Value) == tableLk {
					continue
				}
				if cst, isC := a.v.(*ssa.Const); isC && cst.Value != nil {
					continue
				}
				// a raw alternative: only on the side where the table had no filter
				nilSide := false
				if a.at != nil {
					var vals []ssa.Value
					vals = append(vals, tableLk)
					if tableLk.Referrers() != nil {
						for _, ref := range *tableLk.Referrers() {
							if ex, ok := ref.(*ssa.Extract); ok {
								vals = append(vals, ex)
							}
						}
					}
					for _, b := range a.at.Parent().Blocks {
						for k := 0; k < len(b.Succs) && len(b.Succs) == 2; k++ {
							// comma-ok form: the side on which the lookup's ok flag is false
							if cv, pol, okT := eng.CondTruth(b, k); okT && !pol {
								if ex, isEx := cv.(*ssa.Extract); isEx && ex.Index == 1 && ex.Tuple == ssa.Value(tableLk) {
									if eng.EdgeDominates(b, k, a.at) || b == a.at && a.to != nil && b.Succs[k] == a.to {
										nilSide = true
									}
								}
							}
							rel, ok := eng.EdgeRel(b, k)
							if !ok || rel.Op != token.EQL || !eng.IsNilConst(rel.Y) {
								continue
							}
							isLk := false
							for _, lv := range vals {
								if rel.X == lv {
									isLk = true
								}
							}
							if isLk && (eng.EdgeDominates(b, k, a.at) || b == a.at && a.to != nil && b.Succs[k] == a.to) {
								nilSide = true
							}
						}
					}
				}
				if !nilSide {
					okTable = false
				}
			}
			if okTable {
				styleOK = true
			}
			continue
		}
		for _, a := range alts {
			fc, isCall := a.v.(*ssa.Call)
			if isCall && eng.StaticCallee(fc.Common()) == cssFilter {
				if underStyle(a.at) {
					filtered = true
				}
				continue
			}
			if c, isC := a.v.(*ssa.Const); isC && c.Value != nil {
				continue
			}
			if underStyle(a.at) {
				rawUnder = true
			}
		}
		if filtered && !rawUnder {
			styleOK = true
		}
	}
	if !styleOK {
		// in-place form: under lower(key)=="style" the value field of a record is replaced by
		// the CSS filter's result for that same field (attr.Val = sanitizeStyle(attr.Val))
		for _, fc := range tv.filters {
			if fc.Referrers() == nil {
				continue
			}
			for _, ref := range *fc.Referrers() {
				st, ok := ref.(*ssa.Store)
				if !ok || st.Val != ssa.Value(fc) {
					continue
				}
				fa, ok := st.Addr.(*ssa.FieldAddr)
				if !ok || !tv.fields[eng.FieldOfAddr(fa)] {
					continue
				}
				// the filtered value was loaded from the same field of the same record
				same := false
				if u, ok := fc.Call.Args[0].(*ssa.UnOp); ok {
					if fa0, ok := u.X.(*ssa.FieldAddr); ok && fa0.X == fa.X && fa0.Field == fa.Field {
						same = true
					}
				}
				if !same {
					continue
				}
				// under the style edge on the key of that record
				for _, b := range st.Parent().Blocks {
					for k := 0; k < len(b.Succs) && len(b.Succs) == 2; k++ {
						rel, ok := eng.EdgeRel(b, k)
						if !ok || rel.Op != token.EQL || !eng.EdgeDominates(b, k, st.Block()) {
							continue
						}
						sv, isC := eng.ConstString(rel.Y)
						lc, isCall := rel.X.(*ssa.Call)
						if !isC || sv != "style" || !isCall || eng.CalleeName(lc.Common()) != "strings.ToLower" {
							continue
						}
						arg := eng.StripConv(lc.Call.Args[0])
						if !tk.tainted[arg] && !tk.tainted[lc.Call.Args[0]] {
							continue
						}
						if u, ok := arg.(*ssa.UnOp); ok {
							if fk, ok := u.X.(*ssa.FieldAddr); ok && fk.X == fa.X {
								styleOK = true
							}
						}
					}
				}
			}
		}
	}
	if !styleOK {
		probs = append(probs, "a style attribute's value does not pass the CSS filter (selected by strings.ToLower(key) == \"style\") before it is written")
	}
	// a tag that has attributes is rebuilt from its filtered attributes; its raw bytes (z.Raw(),
	// or a copy of them) are written only for tokens without attributes
	for _, g := range sanFns {
		g := g
		var hasAttr []ssa.Value
		raw := map[ssa.Value]bool{}
		eng.EachInstr(g, func(in ssa.Instruction) {
			call, ok := in.(*ssa.Call)
			if !ok {
				return
			}
			switch eng.CalleeName(call.Common()) {
			case "(*golang.org/x/net/html.Tokenizer).TagName":
				if call.Referrers() != nil {
					for _, ref := range *call.Referrers() {
						if ex, isEx := ref.(*ssa.Extract); isEx && ex.Index == 1 {
							hasAttr = append(hasAttr, ex)
						}
					}
				}
			case "(*golang.org/x/net/html.Tokenizer).Raw":
				raw[call] = true
			}
		})
		if len(hasAttr) == 0 || len(raw) == 0 {
			continue
		}
		// copies of the raw bytes: append(x, raw...), slices of them, locals that hold them
		for grew := true; grew; {
			grew = false
			eng.EachInstr(g, func(in ssa.Instruction) {
				v, isV := in.(ssa.Value)
				if !isV || raw[v] {
					return
				}
				hit := false
				switch y := in.(type) {
				case *ssa.Call:
					if eng.CalleeName(y.Common()) == "builtin.append" {
						for _, a := range y.Call.Args[1:] {
							hit = hit || raw[a]
						}
						hit = hit || raw[y.Call.Args[0]]
					}
				case *ssa.Slice:
					hit = raw[y.X]
				case *ssa.Phi:
					for _, e := range y.Edges {
						hit = hit || raw[e]
					}
				case *ssa.Convert:
					hit = raw[y.X]
				case *ssa.UnOp:
					if y.Op == token.MUL {
						if cell, isCell := y.X.(*ssa.Alloc); isCell {
							for _, cs := range eng.CellStores(cell) {
								hit = hit || raw[cs.Val]
							}
						}
					}
				}
				if hit {
					raw[v] = true
					grew = true
				}
			})
		}
		eng.EachInstr(g, func(in ssa.Instruction) {
			cc := eng.CallOf(in)
			if cc == nil {
				return
			}
			name := eng.CalleeName(cc)
			if cc.IsInvoke() {
				name = cc.Method.Name()
			}
			if !strings.HasSuffix(name, "Write") && !strings.HasSuffix(name, "WriteString") {
				return
			}
			writesRaw := false
			for _, a := range cc.Args {
				writesRaw = writesRaw || raw[a]
			}
			if !writesRaw {
				return
			}
			for _, b := range g.Blocks {
				for k := 0; k < len(b.Succs) && len(b.Succs) == 2; k++ {
					v, pol, ok := eng.CondTruth(b, k)
					if !ok || !pol || !eng.EdgeDominates(b, k, in.Block()) {
						continue
					}
					for _, ha := range hasAttr {
						if v == ha {
							probs = append(probs, "the raw bytes of a tag that has attributes are written to the output at "+p.InstrPos(in)+": whatever its attributes carry (a second style attribute, say) reaches the policy stage unfiltered")
						}
					}
				}
			}
		})
	}
	sort.Strings(probs)
	probs = dedupStrings(probs)
	if len(probs) > 0 {
		r.Bad("C18/ATTR", "tag-rewriter", p.InstrPos(tagAttr), "%s", strings.Join(probs, "; "))
	} else {
		r.Ok("C18/ATTR", "tag-rewriter", p.InstrPos(tagAttr), "attribute values reach the output only through html.EscapeString (%d site); style values pass the CSS filter first", len(escapes))
	}
}

func (c *Ctx) c18CSS() {
	r, p := c.R, c.P
	cssFilter := p.Func(sanRel, "sanitizeStyle")
	allowedObj := p.Obj(sanRel, "allowedProperties")
	if cssFilter == nil || allowedObj == nil {
		return
	}
	var allowedG *ssa.Global
	if sp := p.SSA.Package(p.Pkg(sanRel)); sp != nil {
		allowedG, _ = sp.Members["allowedProperties"].(*ssa.Global)
	}
	if allowedG == nil {
		return
	}
	isScannerToken := func(t types.Type) bool {
		if pt, ok := t.(*types.Pointer); ok {
			t = pt.Elem()
		}
		n, ok := t.(*types.Named)
		return ok && n.Obj().Name() == "Token" && n.Obj().Pkg() != nil && strings.HasSuffix(n.Obj().Pkg().Path(), "css/scanner")
	}
	// token handlers: the package functions that receive a scanner token (the states of the
	// filter, however they are represented), plus the filter itself
	var states []*ssa.Function
	for _, fn := range pkgFuncs(p, sanRel) {
		if fn.Parent() != nil {
			continue
		}
		for _, prm := range fn.Params {
			if isScannerToken(prm.Type()) {
				states = append(states, fn)
				break
			}
		}
	}
	r.Floor("C18/CSS", "state handler functions", len(states), 1)
	writers := append([]*ssa.Function{cssFilter}, states...)
	// and every package function the filter runs, whatever its parameters
	{
		have := map[*ssa.Function]bool{}
		for _, w := range writers {
			have[w] = true
		}
		var more []*ssa.Function
		for g := range p.SyncReach(cssFilter) {
			if !have[g] && g.Parent() == nil && eng.FuncPkgPath(g) == eng.Mod+"/"+sanRel {
				more = append(more, g)
			}
		}
		sortFuncs(more)
		writers = append(writers, more...)
	}
	isTokenValue := func(v ssa.Value) bool {
		f := eng.LoadedField(v)
		return f != nil && f.Name() == "Value" && f.Pkg() != nil && strings.HasSuffix(f.Pkg().Path(), "css/scanner")
	}
	// token text: anything that carries characters of the token — its Value, the result of a
	// method on the token itself (Token.String() includes the value), and strings built from
	// those. The token's Type and Type.String() are a closed set of names.
	var isTokenText func(v ssa.Value, depth int) bool
	isTokenText = func(v ssa.Value, depth int) bool {
		if depth > 6 {
			return true
		}
		if isTokenValue(v) {
			return true
		}
		switch x := v.(type) {
		case *ssa.Const:
			return false
		case *ssa.BinOp:
			return x.Op == token.ADD && (isTokenText(x.X, depth+1) || isTokenText(x.Y, depth+1))
		case *ssa.Convert:
			return isTokenText(x.X, depth+1)
		case *ssa.ChangeType:
			return isTokenText(x.X, depth+1)
		case *ssa.MakeInterface:
			return isTokenText(x.X, depth+1)
		case *ssa.Phi:
			for _, e := range x.Edges {
				if isTokenText(e, depth+1) {
					return true
				}
			}
			return false
		case *ssa.Call:
			if !x.Call.IsInvoke() {
				for i, a := range x.Call.Args {
					if i == 0 && isScannerToken(a.Type()) {
						return true // a method of the token
					}
				}
			}
			switch eng.CalleeName(x.Common()) {
			case "fmt.Sprintf", "fmt.Sprint":
				for _, a := range sprintfArgs(x) {
					if isTokenText(a, depth+1) {
						return true
					}
				}
				return false
			case "strings.ToLower", "strings.ToUpper", "strings.TrimSpace":
				return isTokenText(x.Call.Args[0], depth+1)
			}
			if strings.HasSuffix(eng.CalleeName(x.Common()), "css/scanner.tokenType).String") || strings.HasSuffix(eng.CalleeName(x.Common()), "css/scanner.TokenType).String") {
				return false
			}
			for _, a := range x.Call.Args {
				if isTokenText(a, depth+1) {
					return true
				}
			}
			return false
		case *ssa.Parameter:
			if w := p.Actual(x); w != v {
				return isTokenText(w, depth+1)
			}
			return isString(x.Type())
		}
		return false
	}
	// ok edge of the allow-list lookup in fn
	okEdge := func(fn *ssa.Function, at *ssa.BasicBlock) bool {
		for _, b := range fn.Blocks {
			for k := 0; k < len(b.Succs) && len(b.Succs) == 2; k++ {
				v, pol, ok := eng.CondTruth(b, k)
				if !ok || !pol || !eng.EdgeDominates(b, k, at) {
					continue
				}
				if isAllowLookup(v, allowedG, isTokenValue) {
					return true
				}
				// a package helper `func(name string) bool` that returns that lookup's ok
				if hc, ok := v.(*ssa.Call); ok && len(hc.Call.Args) >= 1 {
					if rets, g := eng.ReturnedValues(hc, 0); g != nil && len(rets) > 0 {
						all := true
						for _, rv := range rets {
							prmIs := func(x ssa.Value) bool {
								i := eng.ParamIndex(x)
								return i >= 0 && i < len(hc.Call.Args) && isTokenValue(hc.Call.Args[i])
							}
							if !isAllowLookup(rv, allowedG, prmIs) {
								all = false
							}
						}
						if all {
							return true
						}
					}
				}
			}
		}
		return false
	}
	// the "copying" state of an unguarded token write: the function itself when states are
	// function values, or the constant K of a package-declared integer type when the write is
	// dominated by a `state == K` edge
	type enumState struct {
		t types.Type
		k int64
	}
	stateGuard := func(fn *ssa.Function, at *ssa.BasicBlock) (enumState, bool) {
		for _, b := range fn.Blocks {
			for k := 0; k < len(b.Succs) && len(b.Succs) == 2; k++ {
				rel, ok := eng.EdgeRel(b, k)
				if !ok || rel.Op != token.EQL || !eng.EdgeDominates(b, k, at) {
					continue
				}
				x, y := rel.X, rel.Y
				if _, isC := x.(*ssa.Const); isC {
					x, y = y, x
				}
				kv, isC := eng.ConstInt(y)
				n, isN := x.Type().(*types.Named)
				if !isC || !isN || n.Obj().Pkg() == nil || n.Obj().Pkg().Path() != eng.Mod+"/"+sanRel {
					continue
				}
				if b, ok := n.Underlying().(*types.Basic); !ok || b.Info()&types.IsInteger == 0 {
					continue
				}
				return enumState{n, kv}, true
			}
		}
		return enumState{}, false
	}
	// a boolean-coded copying state (keep := beginDeclaration(b, t); … if keep { write }): the
	// write is dominated by the true edge of a flag that is true only where the property passed
	// the allow-list
	var allowedFlag func(v ssa.Value, at *ssa.BasicBlock, depth int) bool
	flagBusy := map[*ssa.Phi]bool{}
	allowedFlag = func(v ssa.Value, at *ssa.BasicBlock, depth int) bool {
		if depth > 6 {
			return false
		}
		// a flag carried round the token loop (keep stays what it was until the next
		// declaration begins): the phi seen again adds no new source
		if ph, isPhi := v.(*ssa.Phi); isPhi {
			if flagBusy[ph] {
				return true
			}
			flagBusy[ph] = true
			defer delete(flagBusy, ph)
		}
		switch x := v.(type) {
		case *ssa.Const:
			if b, isB := eng.ConstBool(x); isB {
				return !b || okEdge(at.Parent(), at)
			}
			return false
		case *ssa.Phi:
			for i, e := range x.Edges {
				if !allowedFlag(e, x.Block().Preds[i], depth+1) {
					return false
				}
			}
			return true
		case *ssa.Call:
			g := eng.StaticCallee(x.Common())
			if g == nil || len(g.Blocks) == 0 || g.Parent() != nil || eng.FuncPkgPath(g) != eng.Mod+"/"+sanRel || g.Signature.Results().Len() != 1 {
				return false
			}
			okAll, n := true, 0
			eng.EachInstr(g, func(in ssa.Instruction) {
				ret, isRet := in.(*ssa.Return)
				if !isRet || in.Parent() != g || eng.IsRecoverBlock(ret.Block()) {
					return
				}
				n++
				if !allowedFlag(eng.ReturnResults(ret)[0], ret.Block(), depth+1) {
					okAll = false
				}
			})
			return okAll && n > 0
		}
		return false
	}
	boolGuard := func(fn *ssa.Function, at *ssa.BasicBlock) bool {
		for _, b := range fn.Blocks {
			for k := 0; k < len(b.Succs) && len(b.Succs) == 2; k++ {
				v, pol, ok := eng.CondTruth(b, k)
				if !ok || !pol || !eng.EdgeDominates(b, k, at) {
					continue
				}
				if _, isC := v.(*ssa.Const); isC {
					continue
				}
				if isB := isBool(v.Type()); isB && allowedFlag(v, b, 0) {
					return true
				}
			}
		}
		return false
	}
	nBoolStates, nGuardedRet := 0, 0
	// isHandlerResult: v is the string a token handler returned: result of a call (static or
	// through a function value) that was given a scanner token
	isHandlerResult := func(v ssa.Value) bool {
		call, _ := eng.CallAndIndex(v)
		if call == nil || call.Call.IsInvoke() {
			return false
		}
		if g := eng.StaticCallee(call.Common()); g != nil {
			isState := false
			for _, sfn := range states {
				if sfn == g {
					isState = true
				}
			}
			if !isState {
				return false
			}
		}
		for _, a := range call.Call.Args {
			if isScannerToken(a.Type()) {
				return true
			}
		}
		return false
	}
	unguarded := map[*ssa.Function]bool{}
	enumStates := map[enumState]string{}
	var probs []string
	nWrites := 0
	for _, fn := range writers {
		fn := fn
		eng.EachInstr(fn, func(in ssa.Instruction) {
			call, ok := in.(*ssa.Call)
			if !ok {
				return
			}
			name := eng.CalleeName(call.Common())
			if !(strings.HasPrefix(name, "(*bytes.Buffer).Write") || strings.HasPrefix(name, "(*strings.Builder).Write")) || len(call.Call.Args) < 2 {
				return
			}
			nWrites++
			// the text a state handler returned for this token (emit, next := state(t)): judged
			// at the handlers' own returns, below
			if isHandlerResult(call.Call.Args[1]) {
				return
			}
			if !isTokenText(call.Call.Args[1], 0) {
				return
			}
			if okEdge(fn, call.Block()) && isTokenValue(call.Call.Args[1]) {
				return
			}
			if es, ok := stateGuard(fn, call.Block()); ok {
				enumStates[es] = p.InstrPos(call)
				return
			}
			if boolGuard(fn, call.Block()) {
				nBoolStates++
				return
			}
			unguarded[fn] = true
		})
	}
	// state handlers that hand their output back instead of writing it (func(t) (emit string,
	// next stateHandler)): a returned token text is a write
	for _, fn := range states {
		fn := fn
		res := fn.Signature.Results()
		if res.Len() == 0 || !isString(res.At(0).Type()) {
			continue
		}
		eng.EachInstr(fn, func(in ssa.Instruction) {
			ret, ok := in.(*ssa.Return)
			if !ok {
				return
			}
			rv := eng.ReturnResults(ret)[0]
			nWrites++
			if !isTokenText(rv, 0) {
				return
			}
			if okEdge(fn, ret.Block()) && isTokenValue(rv) {
				nGuardedRet++
				return
			}
			if es, ok := stateGuard(fn, ret.Block()); ok {
				enumStates[es] = p.InstrPos(ret)
				return
			}
			if boolGuard(fn, ret.Block()) {
				nBoolStates++
				return
			}
			unguarded[fn] = true
		})
	}
	r.Floor("C18/CSS", "writes to the filter's output buffer", nWrites, 1)
	// an unguarded writer state may only be entered from an ok edge or from itself
	for fn := range unguarded {
		referenced := false
		for _, g := range pkgFuncs(p, sanRel) {
			g := g
			eng.EachInstr(g, func(in ssa.Instruction) {
				refs := false
				for _, op := range in.Operands(nil) {
					if *op == ssa.Value(fn) {
						refs = true
					}
				}
				// a method value f.valid: the closure over the bound-method wrapper
				if mc, ok := in.(*ssa.MakeClosure); ok {
					if w, ok := mc.Fn.(*ssa.Function); ok && eng.UnwrapBound(w) == fn && w != fn {
						refs = true
					}
				}
				// states as types behind an interface (validState{} as styleState): the state is
				// selected where a value of the handler's receiver type becomes an interface value
				if mi, ok := in.(*ssa.MakeInterface); ok && fn.Signature.Recv() != nil {
					rt := fn.Signature.Recv().Type()
					if pt, isP := rt.(*types.Pointer); isP {
						rt = pt.Elem()
					}
					xt := mi.X.Type()
					if pt, isP := xt.(*types.Pointer); isP {
						xt = pt.Elem()
					}
					if n, isN := rt.(*types.Named); isN && n.Obj().Pkg() != nil && n.Obj().Pkg().Path() == eng.Mod+"/"+sanRel && types.Identical(rt, xt) {
						refs = true
					}
				}
				if !refs {
					return
				}
				referenced = true
				if _, isCall := in.(*ssa.Call); isCall {
					if cc := in.(*ssa.Call); eng.StaticCallee(cc.Common()) == fn {
						probs = append(probs, shortFn(fn)+" writes token text that did not pass the allow-list and is called directly at "+p.InstrPos(in))
						return
					}
				}
				if g == fn {
					return
				}
				// a phi operand: check the predecessor edge; otherwise the instruction's block
				at := in.Block()
				if ph, ok := in.(*ssa.Phi); ok {
					for i, e := range ph.Edges {
						if e == ssa.Value(fn) && !okEdge(g, ph.Block().Preds[i]) {
							probs = append(probs, "the token-copying state "+shortFn(fn)+" can be entered from "+shortFn(g)+" without the property having passed the allow-list")
						}
					}
					return
				}
				if !okEdge(g, at) {
					probs = append(probs, "the token-copying state "+shortFn(fn)+" is selected at "+p.InstrPos(in)+" ("+shortFn(g)+") without the property having passed the allow-list")
				}
			})
		}
		if !referenced {
			probs = append(probs, shortFn(fn)+" writes token text to the output without the allow-list lookup and outside any state")
		}
	}
	// enum-coded copying states: the constant is produced only under the allow-list edge or
	// under the `state == K` edge itself
	for es, where := range enumStates {
		for _, g := range pkgFuncs(p, sanRel) {
			g := g
			eng.EachInstr(g, func(in ssa.Instruction) {
				if bo, isB := in.(*ssa.BinOp); isB && (bo.Op == token.EQL || bo.Op == token.NEQ) {
					return
				}
				for i, op := range in.Operands(nil) {
					cst, ok := (*op).(*ssa.Const)
					if !ok || !types.Identical(cst.Type(), es.t) {
						continue
					}
					if kv, isC := eng.ConstInt(cst); !isC || kv != es.k {
						continue
					}
					at := in.Block()
					if ph, isPhi := in.(*ssa.Phi); isPhi && i < len(ph.Block().Preds) {
						at = ph.Block().Preds[i]
					}
					if okEdge(g, at) {
						continue
					}
					if gs, ok := stateGuard(g, at); ok && gs == es {
						continue
					}
					probs = append(probs, "the token-copying state (value "+strconv.FormatInt(es.k, 10)+", copying at "+where+") is selected at "+p.InstrPos(in)+" ("+shortFn(g)+") without the property having passed the allow-list")
				}
			})
		}
	}
	// at least one guarded identifier writer must exist
	guardedWriter := false
	for _, fn := range writers {
		fn := fn
		eng.EachInstr(fn, func(in ssa.Instruction) {
			if call, ok := in.(*ssa.Call); ok && (strings.HasPrefix(eng.CalleeName(call.Common()), "(*bytes.Buffer).Write") || strings.HasPrefix(eng.CalleeName(call.Common()), "(*strings.Builder).Write")) && len(call.Call.Args) >= 2 && isTokenValue(call.Call.Args[1]) && okEdge(fn, call.Block()) {
				guardedWriter = true
			}
		})
	}
	if !guardedWriter && nGuardedRet == 0 {
		// the filter as a table of transitions
		if okT, whyT, foundT := c.c18CSSTable(cssFilter, allowedG, isTokenValue); foundT {
			if okT {
				guardedWriter = true
				r.Count("C18/CSS: "+whyT, 1)
			} else {
				probs = append(probs, whyT)
				guardedWriter = true
			}
		}
	}
	if !guardedWriter && nGuardedRet == 0 {
		probs = append(probs, "no state writes a property identifier under the allow-list lookup: either nothing or everything is copied")
	}
	// error token → ""
	errOK := false
	eng.EachInstr(cssFilter, func(in ssa.Instruction) {
		ret, ok := in.(*ssa.Return)
		if !ok {
			return
		}
		if s, isC := eng.ConstString(eng.ReturnResults(ret)[0]); isC && s == "" {
			errOK = true
		}
	})
	if !errOK {
		probs = append(probs, "the CSS filter has no path returning \"\" (scanner error must drop the whole style)")
	}
	sort.Strings(probs)
	probs = dedupStrings(probs)
	if len(probs) > 0 {
		r.Bad("C18/CSS", "css-state-machine", p.Pos(cssFilter.Pos()), "%s", strings.Join(probs, "; "))
	} else {
		r.Ok("C18/CSS", "css-state-machine", p.Pos(cssFilter.Pos()), "token text is written only under allowedProperties[lower(name)] ok or in a copying state (%d function-valued, %d enum-coded, %d flag-coded) that is entered only from that edge; other output is constant text and token type names; error → \"\"", len(unguarded), len(enumStates), nBoolStates)
	}
}

func dedupStrings(in []string) []string {
	var out []string
	for i, s := range in {
		if i == 0 || s != in[i-1] {
			out = append(out, s)
		}
	}
	return out
}

func (c *Ctx) c18Text() {
	r, p := c.R, c.P
	fn := p.Func("pkg/server/web", "TextToHTML")
	wrap := p.Func("pkg/server/web", "WrapURL")
	if fn == nil || wrap == nil {
		return
	}
	prm := fn.Params[0]
	var probs []string
	var esc *ssa.Call
	if steps, at, ok := stepTable(fn); ok {
		// the transformation written as a table of steps applied in order (for _, step := range
		// steps { text = step(text) }): the first step must be the escaping itself, every later
		// one a function of the package that post-processes its argument the allowed way
		allowedT := map[string]bool{"(*regexp.Regexp).ReplaceAllStringFunc": true, "(*strings.Replacer).Replace": true, "strings.ReplaceAll": true, "fmt.Sprintf": true,
			"(*regexp.Regexp).ReplaceAllLiteralString": true, "(*regexp.Regexp).ReplaceAllString": true}
		c.c18TextSteps(fn, wrap, steps, at, allowedT)
		return
	}
	for _, ref := range *prm.Referrers() {
		switch x := ref.(type) {
		case *ssa.Call:
			if eng.CalleeName(x.Common()) == "html.EscapeString" {
				esc = x
			} else {
				probs = append(probs, "the raw text is passed to "+eng.CalleeName(x.Common())+" at "+p.InstrPos(x))
			}
		case *ssa.DebugRef:
		default:
			probs = append(probs, "the raw text is used at "+p.InstrPos(ref)+" without escaping")
		}
	}
	if esc == nil {
		probs = append(probs, "the input is never passed to html.EscapeString")
	}
	// returned value must derive from esc through the allowed post-processing table
	allowed := map[string]bool{"(*regexp.Regexp).ReplaceAllStringFunc": true, "(*strings.Replacer).Replace": true, "strings.ReplaceAll": true, "fmt.Sprintf": true,
		"(*regexp.Regexp).ReplaceAllLiteralString": true, "(*regexp.Regexp).ReplaceAllString": true}
	var derives func(v ssa.Value, depth int) bool
	derives = func(v ssa.Value, depth int) bool {
		if depth > 8 {
			return false
		}
		if v == ssa.Value(esc) {
			return true
		}
		if bo, ok := v.(*ssa.BinOp); ok && bo.Op == token.ADD {
			return derives(bo.X, depth+1) || derives(bo.Y, depth+1)
		}
		call, ok := v.(*ssa.Call)
		if !ok {
			return false
		}
		if !allowed[eng.CalleeName(call.Common())] {
			// a helper of the same package that post-processes its argument the allowed way
			g := eng.StaticCallee(call.Common())
			if g == nil || eng.FuncPkgPath(g) != eng.FuncPkgPath(fn) || len(g.Blocks) == 0 {
				return false
			}
			for i, a := range call.Call.Args {
				if i < len(g.Params) && derives(a, depth+1) && helperPassesThrough(g, g.Params[i], allowed, 0) {
					return true
				}
			}
			return false
		}
		for _, a := range call.Call.Args {
			if derives(a, depth+1) {
				return true
			}
		}
		return false
	}
	for _, ret := range successReturns(fn) {
		if esc == nil || !derives(eng.ReturnResults(ret)[0], 0) {
			probs = append(probs, "the returned value at "+p.InstrPos(ret)+" is not derived from the escaped text through the allowed post-processing steps")
		}
	}
	// nothing may undo the escaping: walk every value derived from the escaped text (in
	// TextToHTML and in the callback that wraps URLs) and check each consumer
	// a constant replacement may insert markup only as complete tags with balanced quotes
	// ("<br/>\n"); a lone `<` or quote lets the (escaped) text around it become a tag or leave
	// an attribute value
	markup := func(s string) bool { return !balancedMarkup(s) }
	var checkDerived func(start ssa.Value, where *ssa.Function)
	visitedHelper := map[*ssa.Function]bool{}
	checkDerived = func(start ssa.Value, where *ssa.Function) {
		seen := map[ssa.Value]bool{start: true}
		work := []ssa.Value{start}
		for len(work) > 0 {
			v := work[len(work)-1]
			work = work[:len(work)-1]
			if v.Referrers() == nil {
				continue
			}
			for _, ref := range *v.Referrers() {
				call, ok := ref.(*ssa.Call)
				if !ok {
					switch y := ref.(type) {
					case *ssa.BinOp:
						if y.Op == token.ADD && !seen[y] {
							seen[y] = true
							work = append(work, y)
						}
					case *ssa.MakeInterface:
						if !seen[y] {
							seen[y] = true
							work = append(work, y)
						}
					case *ssa.Store:
						// variadic argument slot
						if ia, ok := y.Addr.(*ssa.IndexAddr); ok {
							if al, ok := ia.X.(*ssa.Alloc); ok {
								for _, r3 := range *al.Referrers() {
									if sl, ok := r3.(*ssa.Slice); ok && !seen[sl] {
										seen[sl] = true
										work = append(work, sl)
									}
								}
							}
						}
					}
					continue
				}
				name := eng.CalleeName(call.Common())
				switch name {
				case "strings.ReplaceAll", "strings.Replace":
					newS, isC := eng.ConstString(call.Call.Args[2])
					if call.Call.Args[0] != v {
						continue
					}
					if !isC || markup(newS) {
						probs = append(probs, "escaped text passes "+name+" at "+p.InstrPos(call)+" whose replacement re-introduces markup characters")
					}
				case "(*regexp.Regexp).ReplaceAllLiteralString", "(*regexp.Regexp).ReplaceAllString":
					// like strings.ReplaceAll: parts of the escaped text are replaced by a
					// constant, which may bring in markup only as complete tags
					if len(call.Call.Args) != 3 || call.Call.Args[1] != v {
						continue
					}
					newS, isC := eng.ConstString(call.Call.Args[2])
					if !isC || markup(newS) {
						probs = append(probs, "escaped text passes "+name+" at "+p.InstrPos(call)+" whose replacement re-introduces markup characters")
					}
				case "(*strings.Builder).WriteString":
					// the text flows into the builder: continue with what is read back from it
					if len(call.Call.Args) == 2 && call.Call.Args[1] == v {
						if sb := call.Call.Args[0]; sb.Referrers() != nil {
							for _, r3 := range *sb.Referrers() {
								if sc, ok := r3.(*ssa.Call); ok && eng.CalleeName(sc.Common()) == "(*strings.Builder).String" && !seen[sc] {
									seen[sc] = true
									work = append(work, sc)
								}
							}
						}
					}
					continue
				case "fmt.Sprintf", "(*regexp.Regexp).ReplaceAllStringFunc", "(*strings.Replacer).Replace", "builtin.len":
				default:
					if g := eng.StaticCallee(call.Common()); g != nil && eng.FuncPkgPath(g) == eng.FuncPkgPath(fn) && len(g.Blocks) > 0 {
						for i, a := range call.Call.Args {
							if a == v && i < len(g.Params) && !visitedHelper[g] {
								visitedHelper[g] = true
								checkDerived(g.Params[i], g)
							}
						}
						if !seen[call] {
							seen[call] = true
							work = append(work, call)
						}
						continue
					}
					probs = append(probs, "escaped text is passed to "+name+" at "+p.InstrPos(call)+" in "+shortFn(where)+": this can undo html.EscapeString (e.g. html.UnescapeString turns &#34; back into a quote inside the generated href)")
					continue
				}
				if !seen[call] {
					seen[call] = true
					work = append(work, call)
				}
			}
		}
	}
	if esc != nil {
		checkDerived(esc, fn)
	}
	checkDerived(wrap.Params[0], wrap)
	c.c18WrapOK(wrap, &probs)
	// the replacer's replacement strings are constants
	for g := range p.SyncReach(fn) {
		if eng.FuncPkgPath(g) != eng.FuncPkgPath(fn) {
			continue
		}
		eng.EachInstr(g, func(in ssa.Instruction) {
			if call, ok := in.(*ssa.Call); ok && eng.CalleeName(call.Common()) == "strings.NewReplacer" {
				strs, all := variadicStrings(call.Call.Args[0])
				if !all && !c.constStringSlice(call.Call.Args[0], 0) {
					probs = append(probs, "strings.NewReplacer is given non-constant replacement strings")
				}
				for i := 1; all && i < len(strs); i += 2 {
					if !balancedMarkup(strs[i]) {
						probs = append(probs, "strings.NewReplacer at "+p.InstrPos(call)+" has a replacement that re-introduces an unbalanced markup character")
					}
				}
			}
		})
	}
	sort.Strings(probs)
	if len(probs) > 0 {
		r.Bad("C18/TEXT", "web.TextToHTML", p.Pos(fn.Pos()), "%s", strings.Join(probs, "; "))
	} else {
		r.Ok("C18/TEXT", "web.TextToHTML", p.Pos(fn.Pos()), "input → html.EscapeString first; anchors and <br/> come from constant strings")
	}
}

func (c *Ctx) c18UI() {
	r, p := c.R, c.P
	fn := p.Func("pkg/webui", "MailboxMessage")
	sanHTML := p.Func(sanRel, "HTML")
	t2h := p.Func("pkg/server/web", "TextToHTML")
	mHTML := p.Method("pkg/message", "Message", "HTML")
	mText := p.Method("pkg/message", "Message", "Text")
	if fn == nil || sanHTML == nil || t2h == nil || mHTML == nil || mText == nil {
		return
	}
	var probs []string
	nH, nT := 0, 0
	var fns []*ssa.Function
	for g := range p.SyncReach(fn) {
		if eng.FuncPkgPath(g) == eng.FuncPkgPath(fn) {
			fns = append(fns, g)
		}
	}
	sortFuncs(fns)
	visit := func(in ssa.Instruction) {
		call, ok := in.(*ssa.Call)
		if !ok {
			return
		}
		g := eng.StaticCallee(call.Common())
		if g != mHTML && g != mText {
			return
		}
		want := sanHTML
		what := "msg.HTML()"
		if g == mText {
			want = t2h
			what = "msg.Text()"
			nT++
		} else {
			nH++
		}
		if call.Referrers() == nil {
			return
		}
		for _, ref := range *call.Referrers() {
			switch x := ref.(type) {
			case *ssa.BinOp, *ssa.DebugRef:
			case *ssa.Call:
				if eng.StaticCallee(x.Common()) != want {
					probs = append(probs, what+" is passed to "+eng.CalleeName(x.Common())+" at "+p.InstrPos(x)+" instead of "+shortFn(want))
				}
			default:
				probs = append(probs, what+" reaches the UI JSON at "+p.InstrPos(ref)+" without passing "+shortFn(want))
			}
		}
	}
	for _, g := range fns {
		eng.EachInstr(g, visit)
	}
	if nH == 0 || nT == 0 {
		probs = append(probs, "the handler no longer reads both body variants")
	}
	// backwards: what is served in the html / text fields of the UI JSON is the sanitiser's (the
	// text renderer's) result itself — a constant placeholder apart — not something computed
	// from it afterwards (a rewrite after sanitising can re-introduce what was removed)
	nServed := 0
	for _, g := range fns {
		g := g
		eng.EachInstr(g, func(in ssa.Instruction) {
			st, ok := in.(*ssa.Store)
			if !ok {
				return
			}
			fa, ok := st.Addr.(*ssa.FieldAddr)
			if !ok {
				return
			}
			f := eng.FieldOfAddr(fa)
			if f == nil || f.Pkg() == nil || f.Pkg().Path() != eng.Mod+"/pkg/webui" || (f.Name() != "HTML" && f.Name() != "Text") {
				return
			}
			want := sanHTML
			if f.Name() == "Text" {
				want = t2h
			}
			nServed++
			seen := map[ssa.Value]bool{}
			var leafBad func(v ssa.Value, depth int) string
			leafBad = func(v ssa.Value, depth int) string {
				if seen[v] || depth > 8 {
					return ""
				}
				seen[v] = true
				switch x := v.(type) {
				case *ssa.Const:
					return ""
				case *ssa.Phi:
					for _, e := range x.Edges {
						if w := leafBad(e, depth+1); w != "" {
							return w
						}
					}
					return ""
				case *ssa.Extract:
					if call, ok := x.Tuple.(*ssa.Call); ok && eng.StaticCallee(call.Common()) == want && x.Index == 0 {
						return ""
					}
				case *ssa.Call:
					if eng.StaticCallee(x.Common()) == want {
						return ""
					}
					// a helper of the handler's package that hands back the sanitiser's result or
					// a constant (sanitizedHTML(msg, …)): judged by what it returns
					if rets, hg := eng.ReturnedValues(x, 0); hg != nil && eng.FuncPkgPath(hg) == eng.FuncPkgPath(fn) && len(rets) > 0 && x.Type() != nil {
						if _, isTuple := x.Type().(*types.Tuple); !isTuple {
							for _, rv := range rets {
								if w := leafBad(rv, depth+1); w != "" {
									return w
								}
							}
							return ""
						}
					}
					return "the result of " + eng.CalleeName(x.Common()) + " at " + p.InstrPos(x)
				case *ssa.UnOp:
					if ad := eng.LoadAddr(v); ad != nil {
						if cell := eng.CellOf(ad); cell != nil {
							for _, cs := range eng.CellStores(cell) {
								if w := leafBad(cs.Val, depth+1); w != "" {
									return w
								}
							}
							return ""
						}
					}
				}
				if in2, ok := v.(ssa.Instruction); ok {
					return "a value computed at " + p.InstrPos(in2)
				}
				return "a value that is not the result of " + shortFn(want)
			}
			if w := leafBad(st.Val, 0); w != "" {
				probs = append(probs, "the "+strings.ToLower(f.Name())+" field of the UI JSON is "+w+", not the result of "+shortFn(want)+" itself: whatever is done to the markup after sanitising is served unsanitised")
			}
		})
	}
	if nServed < 2 {
		probs = append(probs, "the html/text fields of the UI JSON are no longer set in the handler")
	}
	sort.Strings(probs)
	if len(probs) > 0 {
		r.Bad("C18/UI", "webui.MailboxMessage", p.Pos(fn.Pos()), "%s", strings.Join(probs, "; "))
	} else {
		r.Ok("C18/UI", "webui.MailboxMessage", p.Pos(fn.Pos()), "HTML body only through sanitize.HTML (%d reads), text body only through TextToHTML (%d reads)", nH, nT)
	}
}

// isAllowLookup: v is the ok flag of allowedProperties[strings.ToLower(x)] with isName(x).
func isAllowLookup(v ssa.Value, allowedG *ssa.Global, isName func(ssa.Value) bool) bool {
	e, ok := v.(*ssa.Extract)
	if !ok || e.Index != 1 {
		return false
	}
	lk, ok := e.Tuple.(*ssa.Lookup)
	if !ok || !lk.CommaOk {
		return false
	}
	if u, ok := lk.X.(*ssa.UnOp); !ok || u.X != ssa.Value(allowedG) {
		return false
	}
	lc, ok := lk.Index.(*ssa.Call)
	return ok && eng.CalleeName(lc.Common()) == "strings.ToLower" && isName(lc.Call.Args[0])
}

// helperPassesThrough: every return of g derives from parameter prm through the allowed
// post-processing calls (and concatenation).
func helperPassesThrough(g *ssa.Function, prm *ssa.Parameter, allowed map[string]bool, depth int) bool {
	if depth > 3 {
		return false
	}
	var derives func(v ssa.Value, d int) bool
	derives = func(v ssa.Value, d int) bool {
		if d > 8 {
			return false
		}
		if v == ssa.Value(prm) {
			return true
		}
		if bo, ok := v.(*ssa.BinOp); ok && bo.Op == token.ADD {
			return derives(bo.X, d+1) || derives(bo.Y, d+1)
		}
		call, ok := v.(*ssa.Call)
		// a strings.Builder filled from the parameter's own bytes and constant, balanced
		// markup (a hand-written replacer): anything taken from the escaped text carries no
		// markup character, whatever is kept, dropped or reordered
		if ok && eng.CalleeName(call.Common()) == "(*strings.Builder).String" {
			sb := call.Call.Args[0]
			if sb.Referrers() == nil {
				return false
			}
			fromPrm := func(x ssa.Value) bool {
				x = eng.StripConv(x)
				switch y := x.(type) {
				case *ssa.Lookup:
					return y.X == ssa.Value(prm)
				case *ssa.Index:
					return y.X == ssa.Value(prm)
				case *ssa.Slice:
					return y.X == ssa.Value(prm)
				}
				return x == ssa.Value(prm)
			}
			some := false
			for _, ref := range *sb.Referrers() {
				wc, isCall := ref.(*ssa.Call)
				if !isCall || wc == call {
					continue
				}
				switch eng.CalleeName(wc.Common()) {
				case "(*strings.Builder).WriteString":
					if cs, isC := eng.ConstString(wc.Call.Args[1]); isC {
						if !balancedMarkup(cs) {
							return false
						}
						continue
					}
					if !fromPrm(wc.Call.Args[1]) {
						return false
					}
					some = true
				case "(*strings.Builder).WriteByte", "(*strings.Builder).WriteRune":
					if k, isC := eng.ConstInt(wc.Call.Args[1]); isC {
						if strings.ContainsRune("<>\"'", rune(k)) {
							return false
						}
						continue
					}
					if !fromPrm(wc.Call.Args[1]) {
						return false
					}
					some = true
				case "(*strings.Builder).Grow", "(*strings.Builder).Len", "(*strings.Builder).Reset":
				default:
					return false
				}
			}
			return some
		}
		if !ok || !allowed[eng.CalleeName(call.Common())] {
			return false
		}
		for _, a := range call.Call.Args {
			if derives(a, d+1) {
				return true
			}
		}
		return false
	}
	n := 0
	for _, ret := range successReturns(g) {
		n++
		if len(eng.ReturnResults(ret)) != 1 || !derives(eng.ReturnResults(ret)[0], 0) {
			return false
		}
	}
	return n > 0
}

// constStringSlice: a []string whose elements are all constants: built by appends of constant
// strings or of elements of a package-level array/slice that is initialised with constants and
// never written elsewhere.
func (c *Ctx) constStringSlice(v ssa.Value, depth int) bool {
	return c.constStringSliceB(v, depth, map[ssa.Value]bool{})
}

func (c *Ctx) constStringSliceB(v ssa.Value, depth int, busy map[ssa.Value]bool) bool {
	if depth > 8 {
		return false
	}
	if busy[v] {
		return true // an accumulator: judged by its other operands
	}
	busy[v] = true
	defer delete(busy, v)
	p := c.P
	constElem := func(e ssa.Value) bool {
		if _, isC := eng.ConstString(e); isC {
			return true
		}
		var g *ssa.Global
		switch y := e.(type) {
		case *ssa.UnOp:
			if ia, ok := y.X.(*ssa.IndexAddr); ok {
				switch b := ia.X.(type) {
				case *ssa.Global:
					g = b
				case *ssa.UnOp:
					g, _ = b.X.(*ssa.Global)
				}
			}
		case *ssa.Index:
			// element of a copy of a package-level array
			if lu, ok := y.X.(*ssa.UnOp); ok {
				g, _ = lu.X.(*ssa.Global)
			}
		}
		if g == nil {
			return false
		}
		// every store into the global (init code) is a constant; no other function writes it
		okAll, n := true, 0
		fnsW := append([]*ssa.Function(nil), p.Funcs...)
		if g.Pkg != nil {
			if pi := g.Pkg.Func("init"); pi != nil {
				fnsW = append(fnsW, pi)
			}
		}
		for _, fn := range fnsW {
			eng.EachInstr(fn, func(in ssa.Instruction) {
				st, isSt := in.(*ssa.Store)
				if !isSt {
					return
				}
				base := st.Addr
				if ia2, isIA := base.(*ssa.IndexAddr); isIA {
					base = ia2.X
				}
				if base != ssa.Value(g) {
					return
				}
				n++
				if fn.Name() != "init" {
					okAll = false
				}
				if _, isC := eng.ConstString(st.Val); !isC {
					if _, isArr := st.Val.(*ssa.Const); !isArr {
						okAll = false
					}
				}
			})
		}
		return okAll && n > 0
	}
	switch x := v.(type) {
	case *ssa.Const:
		return x.IsNil()
	case *ssa.MakeSlice:
		if k, ok := eng.ConstInt(x.Len); ok && k == 0 {
			return true
		}
		return false
	case *ssa.Phi:
		for _, e := range x.Edges {
			if e != v && !c.constStringSliceB(e, depth+1, busy) {
				return false
			}
		}
		return true
	case *ssa.Slice:
		if k, ok := eng.ConstInt(x.High); ok && k == 0 && x.High != nil {
			return true // empty prefix of a fresh array: make([]string, 0, n)
		}
		if al, ok := x.X.(*ssa.Alloc); ok && al.Referrers() != nil {
			n := 0
			for _, ref := range *al.Referrers() {
				if ia, ok := ref.(*ssa.IndexAddr); ok {
					for _, r2 := range *ia.Referrers() {
						if st, ok := r2.(*ssa.Store); ok {
							n++
							if !constElem(st.Val) {
								return false
							}
						}
					}
				}
			}
			return n > 0 || strings.HasPrefix(eng.ShortType(al.Type()), "*[0]")
		}
		return c.constStringSliceB(x.X, depth+1, busy)
	case *ssa.Call:
		if eng.CalleeName(x.Common()) == "builtin.append" && len(x.Call.Args) == 2 {
			return c.constStringSliceB(x.Call.Args[0], depth+1, busy) && c.constStringSliceB(x.Call.Args[1], depth+1, busy)
		}
	}
	return false
}

func isBool(t types.Type) bool {
	b, ok := t.Underlying().(*types.Basic)
	return ok && b.Info()&types.IsBoolean != 0
}

// balancedMarkup: every `<` in s is closed by a `>` within s, no `>` stands alone, and single
// and double quotes come in pairs.
func balancedMarkup(s string) bool {
	open := false
	dq, sq := 0, 0
	for _, ch := range s {
		switch ch {
		case '<':
			if open {
				return false
			}
			open = true
		case '>':
			if !open {
				return false
			}
			open = false
		case '"':
			dq++
		case '\'':
			sq++
		}
	}
	return !open && dq%2 == 0 && sq%2 == 0
}

// c18TagFilter finds the tag rewriter by what it does: the one top-level function of the
// sanitiser package that creates the HTML tokenizer (styleTagFilter today).
func (c *Ctx) c18TagFilter() *ssa.Function {
	p := c.P
	var cands []*ssa.Function
	for _, fn := range pkgFuncs(p, sanRel) {
		fn := fn
		eng.EachInstr(fn, func(in ssa.Instruction) {
			if ci, ok := in.(ssa.CallInstruction); ok {
				n := eng.CalleeName(ci.Common())
				if strings.HasSuffix(n, "html.NewTokenizer") || strings.HasSuffix(n, "html.NewTokenizerFragment") {
					cands = append(cands, eng.Outer(fn))
				}
			}
		})
	}
	if len(cands) == 1 {
		return cands[0]
	}
	if fn := p.Func(sanRel, "styleTagFilter"); fn != nil {
		return fn
	}
	return nil
}

// c18FuncOf: the function a called value denotes: a function literal, or a function-typed
// parameter bound (at the helper's only call site) to one.
func c18FuncOf(p *eng.Prog, v ssa.Value) *ssa.Function {
	if prm, ok := v.(*ssa.Parameter); ok {
		v = p.Actual(prm)
	}
	if fn, isNil, ok := eng.FuncValueOf(v); ok && !isNil && fn != nil && len(fn.Blocks) > 0 {
		return fn
	}
	return nil
}

// stepTable recognises `for _, step := range T { x = step(x) }; return x` over a package-level
// slice T of functions that is initialised once from a literal and never written again, with x
// starting as fn's only parameter. It returns the functions in order.
func stepTable(fn *ssa.Function) (steps []*ssa.Function, at ssa.Instruction, ok bool) {
	if len(fn.Params) != 1 {
		return nil, nil, false
	}
	var call *ssa.Call
	n := 0
	eng.EachInstr(fn, func(in ssa.Instruction) {
		if c, isCall := in.(*ssa.Call); isCall {
			if _, isB := c.Call.Value.(*ssa.Builtin); isB {
				return
			}
			n++
			call = c
		}
	})
	if n != 1 || call == nil || call.Call.IsInvoke() || eng.StaticCallee(call.Common()) != nil || len(call.Call.Args) != 1 {
		return nil, nil, false
	}
	// the argument: φ(param, call)
	ph, isPhi := call.Call.Args[0].(*ssa.Phi)
	if !isPhi || len(ph.Edges) != 2 {
		return nil, nil, false
	}
	okPhi := false
	for i, e := range ph.Edges {
		if e == ssa.Value(fn.Params[0]) && ph.Edges[1-i] == ssa.Value(call) {
			okPhi = true
		}
	}
	if !okPhi {
		return nil, nil, false
	}
	for _, ret := range successReturns(fn) {
		if res := eng.ReturnResults(ret); len(res) != 1 || res[0] != ssa.Value(ph) {
			return nil, nil, false
		}
	}
	// the callee: an element of a global slice
	u, isU := call.Call.Value.(*ssa.UnOp)
	if !isU || u.Op != token.MUL {
		return nil, nil, false
	}
	ia, isIA := u.X.(*ssa.IndexAddr)
	if !isIA {
		return nil, nil, false
	}
	lu, isLU := ia.X.(*ssa.UnOp)
	if !isLU || lu.Op != token.MUL {
		return nil, nil, false
	}
	g, isG := lu.X.(*ssa.Global)
	if !isG {
		return nil, nil, false
	}
	// single store to the global, in the package initialiser, of a literal of functions
	var stores []*ssa.Store
	for _, m := range g.Pkg.Members {
		f, isF := m.(*ssa.Function)
		if !isF {
			continue
		}
		for _, h := range eng.WithAnons(f) {
			eng.EachInstr(h, func(in ssa.Instruction) {
				if st, isSt := in.(*ssa.Store); isSt && st.Addr == ssa.Value(g) {
					stores = append(stores, st)
				}
			})
		}
	}
	if len(stores) != 1 || stores[0].Parent().Name() != "init" {
		return nil, nil, false
	}
	sl, isSl := stores[0].Val.(*ssa.Slice)
	if !isSl {
		return nil, nil, false
	}
	al, isAl := sl.X.(*ssa.Alloc)
	if !isAl {
		return nil, nil, false
	}
	elems := map[int64]*ssa.Function{}
	for _, ref := range *al.Referrers() {
		ea, isEA := ref.(*ssa.IndexAddr)
		if !isEA {
			continue
		}
		k, isK := eng.ConstInt(ea.Index)
		if !isK {
			return nil, nil, false
		}
		for _, r2 := range *ea.Referrers() {
			if st, isSt := r2.(*ssa.Store); isSt {
				f, _, isFn := eng.FuncValueOf(st.Val)
				if !isFn || f == nil {
					return nil, nil, false
				}
				elems[k] = f
			}
		}
	}
	for i := int64(0); i < int64(len(elems)); i++ {
		f, has := elems[i]
		if !has {
			return nil, nil, false
		}
		steps = append(steps, f)
	}
	return steps, call, len(steps) > 0
}

// c18TextSteps judges TextToHTML written as a table of steps.
func (c *Ctx) c18TextSteps(fn, wrap *ssa.Function, steps []*ssa.Function, at ssa.Instruction, allowed map[string]bool) {
	r, p := c.R, c.P
	var probs []string
	if eng.FuncName(steps[0]) != "html.EscapeString" {
		probs = append(probs, "the first step applied to the input is "+eng.FuncName(steps[0])+", not html.EscapeString")
	}
	for _, g := range steps[1:] {
		if eng.FuncName(g) == "html.EscapeString" {
			continue
		}
		if eng.FuncPkgPath(g) != eng.FuncPkgPath(fn) || len(g.Blocks) == 0 || len(g.Params) != 1 {
			probs = append(probs, "the step "+eng.FuncName(g)+" is not a function of the package that can be examined: it may undo the escaping")
			continue
		}
		if !helperPassesThrough(g, g.Params[0], allowed, 0) {
			probs = append(probs, "the step "+shortFn(g)+" does not hand on its (escaped) argument through the allowed post-processing steps")
		}
		// what the step does to the escaped text: constant replacements must be balanced markup
		eng.EachInstr(g, func(in ssa.Instruction) {
			call, ok := in.(*ssa.Call)
			if !ok {
				return
			}
			switch name := eng.CalleeName(call.Common()); name {
			case "strings.ReplaceAll", "strings.Replace", "(*regexp.Regexp).ReplaceAllLiteralString", "(*regexp.Regexp).ReplaceAllString":
				newS, isC := eng.ConstString(call.Call.Args[2])
				if !isC || !balancedMarkup(newS) {
					probs = append(probs, "escaped text passes "+name+" at "+p.InstrPos(call)+" whose replacement re-introduces markup characters")
				}
			case "strings.NewReplacer":
				strs, all := variadicStrings(call.Call.Args[0])
				if !all && !c.constStringSlice(call.Call.Args[0], 0) {
					probs = append(probs, "strings.NewReplacer is given non-constant replacement strings")
				}
				for i := 1; all && i < len(strs); i += 2 {
					if !balancedMarkup(strs[i]) {
						probs = append(probs, "strings.NewReplacer at "+p.InstrPos(call)+" has a replacement that re-introduces an unbalanced markup character")
					}
				}
			case "html.UnescapeString", "net/url.QueryUnescape", "net/url.PathUnescape":
				probs = append(probs, "escaped text is passed to "+name+" at "+p.InstrPos(call)+" in "+shortFn(g)+": this can undo html.EscapeString")
			}
		})
	}
	// the URL wrapper is judged as in the straight-line form: constant markup around its parameter
	okWrap := c.c18WrapOK(wrap, &probs)
	_ = okWrap
	sort.Strings(probs)
	if len(probs) > 0 {
		r.Bad("C18/TEXT", "web.TextToHTML", p.InstrPos(at), "%s", strings.Join(probs, "; "))
	} else {
		r.Ok("C18/TEXT", "web.TextToHTML", p.Pos(fn.Pos()), "a table of %d steps applied in order: html.EscapeString first, then package functions that only insert constant, balanced markup", len(steps))
	}
}

// c18WrapOK: the URL wrapper builds its anchor from constant markup around its (already
// escaped) parameter.
func (c *Ctx) c18WrapOK(wrap *ssa.Function, probs *[]string) bool {
	// WrapURL: constant format, arguments derived from its (already escaped) parameter
	okWrap := true
	nWrapRet := 0
	var builtFrom func(v ssa.Value, leaves map[ssa.Value]bool, depth int) bool
	builtFrom = func(v ssa.Value, leaves map[ssa.Value]bool, depth int) bool {
		if depth > 8 {
			return false
		}
		if _, isC := eng.ConstString(v); isC {
			return true
		}
		if leaves[v] {
			return true
		}
		switch x := v.(type) {
		case *ssa.BinOp:
			return x.Op == token.ADD && builtFrom(x.X, leaves, depth+1) && builtFrom(x.Y, leaves, depth+1)
		case *ssa.MakeInterface:
			return builtFrom(x.X, leaves, depth+1)
		case *ssa.Call:
			switch eng.CalleeName(x.Common()) {
			case "fmt.Sprintf":
				if _, isC := eng.ConstString(x.Call.Args[0]); !isC {
					return false
				}
				for _, a := range sprintfArgs(x) {
					if !builtFrom(a, leaves, depth+1) {
						return false
					}
				}
				return true
			case "strings.ReplaceAll", "strings.Replace":
				return builtFrom(x.Call.Args[0], leaves, depth+1)
			}
			// strings.Builder: the concatenation of everything written to it
			if eng.CalleeName(x.Common()) == "(*strings.Builder).String" {
				sb := x.Call.Args[0]
				if sb.Referrers() == nil {
					return false
				}
				n := 0
				for _, ref := range *sb.Referrers() {
					wc, ok := ref.(*ssa.Call)
					if !ok || wc == x {
						continue
					}
					switch eng.CalleeName(wc.Common()) {
					case "(*strings.Builder).WriteString":
						n++
						if !builtFrom(wc.Call.Args[1], leaves, depth+1) {
							return false
						}
					case "(*strings.Builder).WriteByte", "(*strings.Builder).WriteRune":
						n++
						if _, isC := wc.Call.Args[1].(*ssa.Const); !isC {
							return false
						}
					case "(*strings.Builder).Grow", "(*strings.Builder).Len", "(*strings.Builder).Reset":
					default:
						return false
					}
				}
				return n > 0
			}
			// a helper of the package that renders its string parameters into constant markup
			// (anchor(href, label))
			g := eng.StaticCallee(x.Common())
			if g == nil || eng.FuncPkgPath(g) != eng.FuncPkgPath(wrap) || len(g.Blocks) == 0 || g.Parent() != nil {
				return false
			}
			for _, a := range x.Call.Args {
				if !builtFrom(a, leaves, depth+1) {
					return false
				}
			}
			inner := map[ssa.Value]bool{}
			for _, prm := range g.Params {
				inner[prm] = true
			}
			rets := successReturns(g)
			for _, ret := range rets {
				if len(eng.ReturnResults(ret)) != 1 || !builtFrom(eng.ReturnResults(ret)[0], inner, depth+1) {
					return false
				}
			}
			return len(rets) > 0
		}
		return false
	}
	builtFromConsts := func(v ssa.Value, depth int) bool {
		return builtFrom(v, map[ssa.Value]bool{wrap.Params[0]: true}, depth)
	}
	for _, ret := range successReturns(wrap) {
		nWrapRet++
		if !builtFromConsts(eng.ReturnResults(ret)[0], 0) {
			okWrap = false
		}
	}
	if !okWrap || nWrapRet == 0 {
		*probs = append(*probs, "WrapURL does not build its anchor from constant markup around its (already escaped) parameter")
		return false
	}
	return true
}

// wrapsFilter: f hands back, as its first result on every return, the result of filter applied
// to its own parameter (rewriteStyleAttr(val) = (sanitizeStyle(val), kept)).
func wrapsFilter(f, filter *ssa.Function) bool {
	if f == nil || len(f.Blocks) == 0 || len(f.Params) != 1 {
		return false
	}
	n := 0
	ok := true
	eng.EachInstr(f, func(in ssa.Instruction) {
		ret, isRet := in.(*ssa.Return)
		if !isRet || eng.IsRecoverBlock(ret.Block()) {
			return
		}
		n++
		res := eng.ReturnResults(ret)
		if len(res) == 0 {
			ok = false
			return
		}
		call, isCall := eng.StripConv(res[0]).(*ssa.Call)
		if !isCall || eng.StaticCallee(call.Common()) != filter || len(call.Call.Args) != 1 || eng.StripConv(call.Call.Args[0]) != ssa.Value(f.Params[0]) {
			ok = false
		}
	})
	return ok && n > 0
}

// c18DeclarationEnds: "style attributes contain only declarations whose property is on the
// allow-list". The filter consults the allow-list once per declaration, so a declaration has to
// end where CSS says it ends: in a state that copies value tokens, a ';' token always hands
// over to the state that looks the next property up. A copying state that stays in itself after
// a ';' (because of a counter that input can drive negative, say) copies every later declaration
// unexamined. Decided for filters whose states are function values (func(…) stateHandler); other
// representations are left to the state-machine rule.
func (c *Ctx) c18DeclarationEnds() {
	r, p := c.R, c.P
	rule := "C18/CSS/declaration-ends"
	r.Rule(rule, "in every function-valued CSS state that writes Token.Value without the allow-list lookup, every path from the edge `Token.Value == \";\"` to a return yields the state that performs the lookup")
	var allowedG *ssa.Global
	if sp := p.SSA.Package(p.Pkg(sanRel)); sp != nil {
		allowedG, _ = sp.Members["allowedProperties"].(*ssa.Global)
	}
	if allowedG == nil {
		return
	}
	isTokenValue := func(v ssa.Value) bool {
		f := eng.LoadedField(v)
		return f != nil && f.Name() == "Value" && f.Pkg() != nil && strings.HasSuffix(f.Pkg().Path(), "css/scanner")
	}
	returnsFunc := func(fn *ssa.Function) bool {
		res := fn.Signature.Results()
		if res.Len() != 1 {
			return false
		}
		_, isSig := res.At(0).Type().Underlying().(*types.Signature)
		return isSig
	}
	var all []*ssa.Function
	for _, fn := range pkgFuncs(p, sanRel) {
		all = append(all, fn)
		all = append(all, fn.AnonFuncs...)
	}
	looksUp := func(fn *ssa.Function) bool {
		found := false
		eng.EachInstr(fn, func(in ssa.Instruction) {
			if lk, ok := in.(*ssa.Lookup); ok {
				if u, ok := lk.X.(*ssa.UnOp); ok && u.X == ssa.Value(allowedG) {
					found = true
				}
			}
		})
		return found
	}
	n := 0
	for _, fn := range all {
		if !returnsFunc(fn) || len(fn.Blocks) == 0 || looksUp(fn) {
			continue
		}
		// copies token text?
		copies := false
		eng.EachInstr(fn, func(in ssa.Instruction) {
			if call, ok := in.(*ssa.Call); ok {
				for _, a := range call.Call.Args {
					if isTokenValue(a) {
						copies = true
					}
				}
			}
		})
		if !copies {
			continue
		}
		fn := fn
		for _, b := range fn.Blocks {
			for k := 0; k < len(b.Succs) && len(b.Succs) == 2; k++ {
				rel, ok := eng.EdgeRel(b, k)
				if !ok || rel.Op != token.EQL {
					continue
				}
				x, y := rel.X, rel.Y
				if ks, isK := eng.ConstString(x); isK && ks == ";" {
					x, y = y, x
				}
				ks, isK := eng.ConstString(y)
				if !isK || ks != ";" || !isTokenValue(x) {
					continue
				}
				n++
				cons := "semicolon@" + shortFn(fn)
				// enumerate the paths from the edge to the returns; a φ takes the value of the edge
				// the path came in by
				bad := ""
				var walk func(blk, pred *ssa.BasicBlock, phis map[*ssa.Phi]ssa.Value, depth int)
				seen := map[[2]int]bool{}
				walk = func(blk, pred *ssa.BasicBlock, phis map[*ssa.Phi]ssa.Value, depth int) {
					if bad != "" || depth > 40 {
						return
					}
					key := [2]int{blk.Index, -1}
					if pred != nil {
						key[1] = pred.Index
					}
					if seen[key] {
						return
					}
					seen[key] = true
					np := map[*ssa.Phi]ssa.Value{}
					for a, v := range phis {
						np[a] = v
					}
					for _, in := range blk.Instrs {
						switch x := in.(type) {
						case *ssa.Phi:
							for pi, pb := range blk.Preds {
								if pb == pred && pi < len(x.Edges) {
									e := x.Edges[pi]
									if q, isQ := e.(*ssa.Phi); isQ {
										if qv, has := np[q]; has {
											e = qv
										}
									}
									np[x] = e
								}
							}
						case *ssa.Return:
							rv := x.Results[0]
							for {
								if ct, isCT := rv.(*ssa.ChangeType); isCT {
									rv = ct.X
									continue
								}
								break
							}
							if q, isQ := rv.(*ssa.Phi); isQ {
								if qv, has := np[q]; has {
									rv = qv
								}
							}
							rv = eng.ResolveLocalLoad(rv)
							g, _, isFn := eng.FuncValueOf(rv)
							if !isFn || !looksUp(g) {
								bad = p.InstrPos(x)
							}
						}
					}
					for _, sb := range blk.Succs {
						walk(sb, blk, np, depth+1)
					}
				}
				walk(b.Succs[k], b, map[*ssa.Phi]ssa.Value{}, 0)
				if bad != "" {
					r.Bad(rule, cons, p.InstrPos(b.Instrs[len(b.Instrs)-1]), "after a ';' this copying state can return (at %s) something other than the state that looks the next property up: the declaration does not end there, and the declarations that follow are copied without the allow-list being asked — `position: fixed`, `background-image: url(…)` and the rest reach the page", bad)
				} else {
					r.Ok(rule, cons, p.InstrPos(b.Instrs[len(b.Instrs)-1]), "a ';' always hands over to the state that consults the allow-list")
				}
			}
		}
	}
	r.Count(rule+": ';' edges in copying states", n)
}

// cssAgg is a constant aggregate (array/struct built by composite literals) read back from SSA.
type cssAgg struct {
	k     int64
	elems map[int64]*cssAgg
}

// evalConstAgg reads the value of v when it is an integer constant or a composite literal of
// such (go/ssa builds those through locals: field/element stores into an Alloc, then a load).
func evalConstAgg(v ssa.Value, depth int) *cssAgg {
	if depth > 6 {
		return nil
	}
	v = eng.StripConv(v)
	if k, ok := eng.ConstInt(v); ok {
		return &cssAgg{k: k}
	}
	ld, ok := v.(*ssa.UnOp)
	if !ok || ld.Op != token.MUL {
		return nil
	}
	al, ok := ld.X.(*ssa.Alloc)
	if !ok || al.Referrers() == nil {
		return nil
	}
	out := &cssAgg{elems: map[int64]*cssAgg{}}
	for _, ref := range *al.Referrers() {
		var key int64
		var addr ssa.Value
		switch x := ref.(type) {
		case *ssa.FieldAddr:
			key, addr = int64(x.Field), x
		case *ssa.IndexAddr:
			k, isK := eng.ConstInt(x.Index)
			if !isK {
				return nil
			}
			key, addr = k, x
		default:
			continue
		}
		if addr.Referrers() == nil {
			continue
		}
		for _, r2 := range *addr.Referrers() {
			if st, isSt := r2.(*ssa.Store); isSt && st.Addr == addr {
				e := evalConstAgg(st.Val, depth+1)
				if e == nil {
					return nil
				}
				out.elems[key] = e
			}
		}
	}
	return out
}

// evalConstAggAt reads the constant aggregate that fn builds in place at address base: the
// stores through element and field addresses derived from base.
func evalConstAggAt(base ssa.Value, fn *ssa.Function, depth int) *cssAgg {
	if depth > 6 {
		return nil
	}
	out := &cssAgg{elems: map[int64]*cssAgg{}}
	bad := false
	eng.EachInstr(fn, func(in ssa.Instruction) {
		var key int64
		var addr ssa.Value
		switch x := in.(type) {
		case *ssa.FieldAddr:
			if x.X != base {
				return
			}
			key, addr = int64(x.Field), x
		case *ssa.IndexAddr:
			if x.X != base {
				return
			}
			k, isK := eng.ConstInt(x.Index)
			if !isK {
				bad = true
				return
			}
			key, addr = k, x
		default:
			return
		}
		stored := false
		if addr.Referrers() != nil {
			for _, r2 := range *addr.Referrers() {
				if st, isSt := r2.(*ssa.Store); isSt && st.Addr == addr {
					if e := evalConstAgg(st.Val, depth+1); e != nil {
						out.elems[key] = e
						stored = true
					} else {
						bad = true
					}
				}
			}
		}
		if !stored {
			if e := evalConstAggAt(addr, fn, depth+1); e != nil && len(e.elems) > 0 {
				out.elems[key] = e
			}
		}
	})
	if bad {
		return nil
	}
	return out
}

// c18CSSTable decides the allow-list gate for a CSS filter written as a transition table:
//
//	tr := transitions[state][classify(t)]; if tr.emit == emitValue { write t.Value }; state = tr.next
//
// The table is a package-level constant aggregate; classify returns one class only on the edge
// where the allow-list lookup succeeded. The gate holds when every cell that emits the token's
// text is either in the column of that class, or in a state that can only be entered through that
// column (or from such a state). found is false when the filter has no such shape.
func (c *Ctx) c18CSSTable(filter *ssa.Function, allowedG *ssa.Global, isTokenValue func(ssa.Value) bool) (ok bool, why string, found bool) {
	p := c.P
	for g := range p.SyncReach(filter) {
		if eng.FuncPkgPath(g) != eng.FuncPkgPath(filter) {
			continue
		}
		var verdictOK, verdictFound bool
		var verdictWhy string
		eng.EachInstr(g, func(in ssa.Instruction) {
			if verdictFound {
				return
			}
			call, isCall := in.(*ssa.Call)
			if !isCall || len(call.Call.Args) < 2 || !isTokenValue(call.Call.Args[1]) {
				return
			}
			// the emit test that guards the write: L.f == K with L a local copy of a table cell
			for _, b := range g.Blocks {
				for k := 0; k < len(b.Succs) && len(b.Succs) == 2; k++ {
					rel, okR := eng.EdgeRel(b, k)
					if !okR || rel.Op != token.EQL || !eng.EdgeDominates(b, k, call.Block()) {
						continue
					}
					emitK, isK := eng.ConstInt(rel.Y)
					ld, isLd := eng.StripConv(rel.X).(*ssa.UnOp)
					if !isK || !isLd {
						continue
					}
					fa, isFA := ld.X.(*ssa.FieldAddr)
					if !isFA {
						continue
					}
					cellLocal, isAl := fa.X.(*ssa.Alloc)
					if !isAl {
						continue
					}
					emitField := int64(fa.Field)
					// what the local holds: *(&(&G[s])[cls])
					var cellAddr *ssa.IndexAddr
					for _, st := range eng.CellStores(cellLocal) {
						if l2, ok2 := st.Val.(*ssa.UnOp); ok2 {
							if ia, ok3 := l2.X.(*ssa.IndexAddr); ok3 {
								cellAddr = ia
							}
						}
					}
					if cellAddr == nil {
						continue
					}
					rowAddr, isRow := cellAddr.X.(*ssa.IndexAddr)
					if !isRow {
						continue
					}
					tbl, isG := rowAddr.X.(*ssa.Global)
					if !isG {
						continue
					}
					clsCall, isCls := eng.StripConv(cellAddr.Index).(*ssa.Call)
					stPhi, isPhi := eng.StripConv(rowAddr.Index).(*ssa.Phi)
					if !isCls || !isPhi {
						continue
					}
					classify := eng.StaticCallee(clsCall.Common())
					if classify == nil || len(classify.Blocks) == 0 {
						continue
					}
					verdictFound = true
					// the state variable: an initial constant, otherwise the cell's next field
					s0 := int64(-1)
					nextField := int64(-1)
					for _, e := range stPhi.Edges {
						if kk, isC := eng.ConstInt(e); isC {
							s0 = kk
							continue
						}
						if l3, ok3 := eng.StripConv(e).(*ssa.UnOp); ok3 {
							if f3, ok4 := l3.X.(*ssa.FieldAddr); ok4 && f3.X == ssa.Value(cellLocal) {
								nextField = int64(f3.Field)
								continue
							}
						}
						verdictWhy = "the state variable is assigned something other than the table's next field"
						return
					}
					if s0 < 0 || nextField < 0 {
						verdictWhy = "the state variable's initial value or its update from the table was not found"
						return
					}
					// the table
					var tab *cssAgg
					clean := true
					var pkgFns []*ssa.Function
					for _, mem := range tbl.Pkg.Members {
						if mf, isF := mem.(*ssa.Function); isF {
							pkgFns = append(pkgFns, eng.WithAnons(mf)...)
						}
					}
					for _, mfn := range pkgFns {
						mfn := mfn
						eng.EachInstr(mfn, func(x ssa.Instruction) {
							if st, isSt := x.(*ssa.Store); isSt && st.Addr == ssa.Value(tbl) {
								if mfn.Name() == "init" && tab == nil {
									tab = evalConstAgg(st.Val, 0)
								} else {
									clean = false
								}
							}
							if ia, isIA := x.(*ssa.IndexAddr); isIA && ia.X == ssa.Value(tbl) && mfn.Name() != "init" && ia != rowAddr {
								clean = false
							}
						})
					}
					if tab == nil && clean {
						// initialised in place: init stores through &G[i], &G[i][j], &G[i][j].f
						if initFn := tbl.Pkg.Func("init"); initFn != nil {
							tab = evalConstAggAt(tbl, initFn, 0)
						}
					}
					if tab == nil || !clean || tab.elems == nil {
						verdictWhy = "the transition table is not a constant aggregate written only by its initialiser"
						return
					}
					// the class that stands for "identifier on the allow-list"
					allowed := int64(-1)
					other := map[int64]bool{}
					eng.EachInstr(classify, func(x ssa.Instruction) {
						rt, isRt := x.(*ssa.Return)
						if !isRt || len(rt.Results) != 1 {
							return
						}
						kk, isC := eng.ConstInt(rt.Results[0])
						if !isC {
							other[-2] = true
							return
						}
						onOK := false
						for _, cb := range classify.Blocks {
							for e := 0; e < len(cb.Succs) && len(cb.Succs) == 2; e++ {
								v, pol, okT := eng.CondTruth(cb, e)
								if !okT || !pol || !eng.EdgeDominates(cb, e, rt.Block()) {
									continue
								}
								if ex, isEx := v.(*ssa.Extract); isEx && ex.Index == 1 {
									if lk, isLk := ex.Tuple.(*ssa.Lookup); isLk {
										if u, isU := lk.X.(*ssa.UnOp); isU && u.X == ssa.Value(allowedG) {
											onOK = true
										}
									}
								}
							}
						}
						if onOK {
							allowed = kk
						} else {
							other[kk] = true
						}
					})
					if allowed < 0 || other[allowed] || other[-2] {
						verdictWhy = "the classifier does not reserve one class for identifiers found on the allow-list"
						return
					}
					cell := func(s, cl int64) (next, emit int64) {
						row := tab.elems[s]
						if row == nil || row.elems == nil {
							return 0, 0
						}
						ce := row.elems[cl]
						if ce == nil || ce.elems == nil {
							return 0, 0
						}
						if e := ce.elems[nextField]; e != nil {
							next = e.k
						}
						if e := ce.elems[emitField]; e != nil {
							emit = e.k
						}
						return
					}
					var states, classes []int64
					seenC := map[int64]bool{}
					for s, row := range tab.elems {
						states = append(states, s)
						if row != nil {
							for cl := range row.elems {
								if !seenC[cl] {
									seenC[cl] = true
									classes = append(classes, cl)
								}
							}
						}
					}
					for cl := range other {
						if cl >= 0 && !seenC[cl] {
							seenC[cl] = true
							classes = append(classes, cl)
						}
					}
					if !seenC[allowed] {
						classes = append(classes, allowed)
					}
					hasS0 := false
					for _, s := range states {
						if s == s0 {
							hasS0 = true
						}
					}
					if !hasS0 {
						states = append(states, s0)
					}
					// trusted states: entered only through the allow-list column or from a trusted state
					trusted := map[int64]bool{}
					for _, s := range states {
						if s != s0 {
							trusted[s] = true
						}
					}
					for changed := true; changed; {
						changed = false
						for _, s := range states {
							for _, cl := range classes {
								nx, _ := cell(s, cl)
								if trusted[nx] && cl != allowed && !trusted[s] {
									delete(trusted, nx)
									changed = true
								}
							}
						}
					}
					for _, s := range states {
						for _, cl := range classes {
							_, em := cell(s, cl)
							if em == emitK && cl != allowed && !trusted[s] {
								verdictWhy = fmt.Sprintf("table cell [state %d][class %d] writes the token's text although neither the class is the allow-listed identifier (%d) nor the state one that is only entered through it", s, cl, allowed)
								return
							}
						}
					}
					verdictOK = true
					verdictWhy = fmt.Sprintf("transition table: token text is written only in the allow-list column (class %d) or in states entered only through it (%d states, %d classes examined)", allowed, len(states), len(classes))
				}
			}
		})
		if verdictFound {
			return verdictOK, verdictWhy, true
		}
	}
	return false, "", false
}
