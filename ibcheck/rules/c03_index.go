package rules

import (
	"fmt"
	"go/token"
	"go/types"
	"regexp/syntax"
	"strings"

	"golang.org/x/tools/go/ssa"

	"ibcheck/eng"
)

// c03Index decides two panic classes of the SMTP command parser (there is no recover at the
// session root, so an out-of-range index takes the whole process down):
//
//	(a) the result of an Index-family search used directly as an index or slice bound must be
//	    proven non-negative on the way there (-1 = "not found");
//	(b) an index or slice bound that is a constant must be covered by what is known about the
//	    length of the indexed value: a dominating len test, the group count of the constant
//	    regular expression that produced a submatch slice, or the guarantee of strings.SplitN.
func (c *Ctx) c03Index(m *smtpModel) {
	c.parserIndex("C03/PANIC/index", smtpRel, m.root, "SMTP", 1)
}

// parserIndex is the rule for one server package (rule id, package, session root).
func (c *Ctx) parserIndex(rule, rel string, root *ssa.Function, label string, floor int) {
	r, p := c.R, c.P
	r.Rule(rule, rel+": (a) a strings/bytes Index* result used as an index or slice bound is dominated by a test excluding -1; (b) every constant index or slice bound is within a length established by a dominating len test, by the group count of the constant regexp that produced the submatch, or by strings.SplitN/Fields guarantees")
	var fns []*ssa.Function
	if root == nil {
		fns = pkgFuncs(p, rel) // a package whose functions call each other through function values
	} else {
		for fn := range p.SyncReach(root) {
			if eng.FuncPkgPath(fn) == eng.Mod+"/"+rel {
				fns = append(fns, fn)
			}
		}
	}
	sortFuncs(fns)
	nIdx, nConst := 0, 0
	ord := map[string]int{}
	for _, fn := range fns {
		fn := fn
		eng.EachInstr(fn, func(in ssa.Instruction) {
			var bounds []ssa.Value
			var base ssa.Value
			switch x := in.(type) {
			case *ssa.Slice:
				base = x.X
				if x.Low != nil {
					bounds = append(bounds, x.Low)
				}
				if x.High != nil {
					bounds = append(bounds, x.High)
				}
			case *ssa.IndexAddr:
				base = x.X
				bounds = append(bounds, x.Index)
			case *ssa.Index:
				base = x.X
				bounds = append(bounds, x.Index)
			case *ssa.Lookup:
				if _, isMap := x.X.Type().Underlying().(*types.Map); isMap {
					return
				}
				base = x.X
				bounds = append(bounds, x.Index)
			default:
				return
			}
			if al, ok := base.(*ssa.Alloc); ok {
				if _, isArr := al.Type().(*types.Pointer).Elem().Underlying().(*types.Array); isArr {
					return // variadic packs and local arrays: compiler-checked constants
				}
			}
			for _, bv := range bounds {
				bv = eng.StripConv(bv)
				// (a) search results, possibly through a phi
				for _, src := range indexResultSources(bv, in.Block()) {
					if c.idxOnlyLenMinus {
						break
					}
					nIdx++
					cons := siteCons(p, in, ord, "index-of-result")
					if nonNegativeAt(src.call, src.at, src.to) {
						r.Ok(rule, cons, p.InstrPos(in), "search result proven != -1 before use")
					} else {
						r.Bad(rule, cons, p.InstrPos(in), "the result of %s (at %s) is used as an index or slice bound although it can be -1 here: a line without the searched byte panics the session goroutine, and with no recover the server process", eng.CalleeName(src.call.Common()), p.InstrPos(src.call))
					}
				}
				// (c) len(x) - k as an index into x: needs len(x) >= k on the way
				if sub, isSub := bv.(*ssa.BinOp); isSub && sub.Op == token.SUB {
					if kk, isK := eng.ConstInt(sub.Y); isK && kk > 0 {
						if lx := eng.LenOf(eng.StripConv(sub.X)); lx != nil && lx == base {
							if _, isSl := in.(*ssa.Slice); !isSl {
								nConst++
								cons := siteCons(p, in, ord, fmt.Sprintf("len-minus:%d", kk))
								okLen := false
								for _, b := range in.Parent().Blocks {
									for e := 0; e < len(b.Succs) && len(b.Succs) == 2; e++ {
										rel, okR := eng.EdgeRel(b, e)
										if !okR || !eng.EdgeDominates(b, e, in.Block()) {
											continue
										}
										if l2 := eng.LenOf(eng.StripConv(rel.Y)); l2 != nil && l2 == base {
											rel = rel.Swap()
										}
										if l2 := eng.LenOf(eng.StripConv(rel.X)); l2 == nil || l2 != base {
											continue
										}
										c2, isC2 := eng.ConstInt(rel.Y)
										if !isC2 {
											continue
										}
										switch {
										case rel.Op == token.NEQ && c2 == 0 && kk == 1, rel.Op == token.GTR && c2+1 >= kk, rel.Op == token.GEQ && c2 >= kk:
											okLen = true
										}
									}
								}
								if okLen {
									r.Ok(rule, cons, p.InstrPos(in), "dominated by a test that the length is at least %d", kk)
								} else {
									r.Bad(rule, cons, p.InstrPos(in), "element len-%d is taken without a dominating test that the value has that many elements: on an empty one the index is -1 and the goroutine panics", kk)
								}
							}
						}
					}
				}
				if c.idxOnlyLenMinus {
					continue
				}
				// (b) constant bounds
				k, isC := eng.ConstInt(bv)
				_, isSliceOp := in.(*ssa.Slice)
				if !isC || k < 0 || (k == 0 && isSliceOp) {
					continue
				}
				need := k + 1 // index k needs len > k
				if isSliceOp {
					need = k // bound k needs len >= k
				}
				nConst++
				cons := siteCons(p, in, ord, fmt.Sprintf("const-bound:%d", k))
				if why, ok := c.lengthAtLeast(base, need, in.Block(), 0); ok {
					r.Ok(rule, cons, p.InstrPos(in), "%s", why)
				} else {
					r.Bad(rule, cons, p.InstrPos(in), "constant bound %d is not covered by any established length of the indexed value (%s): a shorter input panics the session", k, why)
				}
			}
		})
	}
	r.Count(rule+": uses of search results as bounds", nIdx)
	r.Floor(rule, "constant index/slice bounds in the "+label+" parser", nConst, floor)
}

type idxSrc struct {
	call *ssa.Call
	at   *ssa.BasicBlock // block at whose end the value is handed on (use block, or phi predecessor)
	to   *ssa.BasicBlock // for a phi edge: the phi's block (the edge at→to may itself be the test)
}

func isIndexSearch(v ssa.Value) *ssa.Call {
	call, ok := v.(*ssa.Call)
	if !ok {
		return nil
	}
	name := eng.CalleeName(call.Common())
	for _, pre := range []string{"strings.Index", "strings.LastIndex", "bytes.Index", "bytes.LastIndex"} {
		if strings.HasPrefix(name, pre) {
			return call
		}
	}
	return nil
}

// indexResultSources: the search calls whose raw result can be the value of v at block `at`.
func indexResultSources(v ssa.Value, at *ssa.BasicBlock) []idxSrc {
	v = eng.StripConv(v)
	if call := isIndexSearch(v); call != nil {
		return []idxSrc{{call, at, nil}}
	}
	if ph, ok := v.(*ssa.Phi); ok {
		var out []idxSrc
		for i, e := range ph.Edges {
			if call := isIndexSearch(eng.StripConv(e)); call != nil {
				out = append(out, idxSrc{call, ph.Block().Preds[i], ph.Block()})
			}
		}
		return out
	}
	return nil
}

// nonNegativeAt: some edge dominating block `at` (or ending in it) implies call != -1.
func nonNegativeAt(call *ssa.Call, at, to *ssa.BasicBlock) bool {
	fn := call.Parent()
	for _, b := range fn.Blocks {
		for k := 0; k < len(b.Succs) && len(b.Succs) == 2; k++ {
			rel, ok := eng.EdgeRel(b, k)
			if !ok {
				continue
			}
			if eng.StripConv(rel.Y) == ssa.Value(call) {
				rel = rel.Swap()
			}
			if eng.StripConv(rel.X) != ssa.Value(call) {
				continue
			}
			kk, isC := eng.ConstInt(rel.Y)
			if !isC {
				continue
			}
			implies := (rel.Op == token.NEQ && kk == -1) || (rel.Op == token.GTR && kk >= -1) || (rel.Op == token.GEQ && kk >= 0) || (rel.Op == token.EQL && kk >= 0)
			if !implies {
				continue
			}
			if eng.EdgeDominates(b, k, at) {
				return true
			}
			if to != nil && b == at && b.Succs[k] == to {
				return true // the phi edge is the testing edge itself
			}
		}
	}
	return false
}

// lengthAtLeast: len(base) >= need is established at block `at`.
func (c *Ctx) lengthAtLeast(base ssa.Value, need int64, at *ssa.BasicBlock, depth int) (string, bool) {
	if depth > 4 {
		return "origin too deep", false
	}
	fn := at.Parent()
	// dominating len tests on this very value (or an equivalent load)
	for _, b := range fn.Blocks {
		for k := 0; k < len(b.Succs) && len(b.Succs) == 2; k++ {
			rel, ok := eng.EdgeRel(b, k)
			if !ok || !eng.EdgeDominates(b, k, at) {
				continue
			}
			lx := eng.LenOf(rel.X)
			if lx == nil {
				if ly := eng.LenOf(rel.Y); ly != nil {
					rel = rel.Swap()
					lx = ly
				}
			}
			if lx == nil || !(lx == base || eng.SameLoadNoDom(lx, base)) {
				continue
			}
			kk, isC := eng.ConstInt(rel.Y)
			if !isC {
				continue
			}
			switch {
			case rel.Op == token.EQL && kk >= need, rel.Op == token.GEQ && kk >= need, rel.Op == token.GTR && kk+1 >= need, rel.Op == token.NEQ && kk == 0 && need <= 1:
				return fmt.Sprintf("dominated by len %s %d", rel.Op, kk), true
			}
		}
	}
	switch x := base.(type) {
	case *ssa.Call:
		name := eng.CalleeName(x.Common())
		switch name {
		case "strings.SplitN", "strings.Split":
			if need <= 1 {
				if name == "strings.SplitN" {
					if n, isC := eng.ConstInt(x.Call.Args[2]); isC && n == 0 {
						return "SplitN with n == 0 returns nil", false
					}
				}
				return name + " returns at least one element", true
			}
			return name + " guarantees only one element", false
		case "(*regexp.Regexp).FindStringSubmatch", "(*regexp.Regexp).FindSubmatch":
			if g, ok := regexpGroups(x.Call.Args[0]); ok {
				if int64(g+1) >= need && nilExcluded(x, at) {
					return fmt.Sprintf("submatch of a constant regexp with %d groups, nil excluded", g), true
				}
				return fmt.Sprintf("submatch has %d entries or is nil", g+1), false
			}
			return "regexp is not a constant pattern", false
		}
	case *ssa.UnOp:
		// element of a [][]string from FindAllStringSubmatch: *IndexAddr(all, i)
		if ia, ok := x.X.(*ssa.IndexAddr); ok && x.Op == token.MUL {
			if call, ok := eng.StripConv(ia.X).(*ssa.Call); ok {
				switch eng.CalleeName(call.Common()) {
				case "(*regexp.Regexp).FindAllStringSubmatch", "(*regexp.Regexp).FindAllSubmatch":
					if g, ok := regexpGroups(call.Call.Args[0]); ok && int64(g+1) >= need {
						return fmt.Sprintf("element of FindAll…Submatch of a constant regexp with %d groups", g), true
					}
				}
			}
		}
		// a local cell: every stored value must satisfy it
		if ad := eng.LoadAddr(base); ad != nil {
			if cell := eng.CellOf(ad); cell != nil && !eng.CellEscapes(cell) {
				sts := eng.CellStores(cell)
				for _, st := range sts {
					if _, ok := c.lengthAtLeast(st.Val, need, st.Block(), depth+1); !ok {
						return "a value stored into the variable has no established length", false
					}
				}
				if len(sts) > 0 {
					return "every value assigned to the variable has the length", true
				}
			}
		}
	case *ssa.Phi:
		for i, e := range x.Edges {
			if _, ok := c.lengthAtLeast(e, need, x.Block().Preds[i], depth+1); !ok {
				return "one incoming value has no established length", false
			}
		}
		return "every incoming value has the length", true
	case *ssa.Slice:
		// s[k:] keeps nothing guaranteed; s[:k] has length k when k is constant
		if x.High != nil && x.Low == nil {
			if k, isC := eng.ConstInt(x.High); isC && k >= need {
				return "prefix slice of constant length", true
			}
		}
	case *ssa.Const:
		if s, isC := eng.ConstString(x); isC && int64(len(s)) >= need {
			return "constant string", true
		}
	case *ssa.Extract:
		// range over FindAllStringSubmatch: value of a Next on the result
		if nx, ok := x.Tuple.(*ssa.Next); ok && x.Index == 2 {
			if rg, ok := nx.Iter.(*ssa.Range); ok {
				_ = rg
			}
		}
	}
	if why, ok := c.tableLenGuard(base, need, at); ok {
		return why, true
	}
	return "no dominating len test and no length-bearing origin", false
}

// regexpGroups: number of capture groups of the constant pattern behind a *regexp.Regexp
// value (regexp.MustCompile("…") directly or through a package-level variable initialised so).
func regexpGroups(v ssa.Value) (int, bool) {
	v = eng.StripConv(v)
	if u, ok := v.(*ssa.UnOp); ok && u.Op == token.MUL {
		if g, ok := u.X.(*ssa.Global); ok {
			// find the store in the package initialiser
			if init := g.Pkg.Func("init"); init != nil {
				var found ssa.Value
				eng.EachInstr(init, func(in ssa.Instruction) {
					if st, ok := in.(*ssa.Store); ok && st.Addr == ssa.Value(g) {
						found = st.Val
					}
				})
				if found != nil {
					return regexpGroups(found)
				}
			}
			return 0, false
		}
	}
	call, ok := v.(*ssa.Call)
	if !ok {
		return 0, false
	}
	switch eng.CalleeName(call.Common()) {
	case "regexp.MustCompile", "regexp.Compile":
	default:
		return 0, false
	}
	pat, isC := eng.ConstString(call.Call.Args[0])
	if !isC {
		return 0, false
	}
	re, err := syntax.Parse(pat, syntax.Perl)
	if err != nil {
		return 0, false
	}
	return re.MaxCap(), true
}

// nilExcluded: the submatch result is compared with nil on an edge dominating `at` that
// implies non-nil.
func nilExcluded(call *ssa.Call, at *ssa.BasicBlock) bool {
	return eng.KnownNonNil(call, at)
}

// tableLenGuard: the number of elements is checked against a table of rules before the code
// branches on the command word —
//
//	if rule, ok := rules[cmd]; ok && !rule.accepts(len(args)) { …; return }
//	switch cmd { case "DELE": … args[0] … }
//
// At a site dominated by cmd == K, with K a key of the (initialiser-only) table, the check ran
// and passed, so len(args) is at least the lower bound the table gives for K. The lower bound is
// read from the helper's comparison `r.<field> <= n` and the table entry's constant for that field.
func (c *Ctx) tableLenGuard(base ssa.Value, need int64, at *ssa.BasicBlock) (string, bool) {
	fn := at.Parent()
	// the command constants under which `at` runs
	type keyed struct {
		v ssa.Value
		k string
	}
	var keys []keyed
	for _, b := range fn.Blocks {
		for e := 0; e < len(b.Succs) && len(b.Succs) == 2; e++ {
			rel, ok := eng.EdgeRel(b, e)
			if !ok || rel.Op != token.EQL || !eng.EdgeDominates(b, e, at) {
				continue
			}
			if ks, isK := eng.ConstString(rel.Y); isK {
				keys = append(keys, keyed{rel.X, ks})
			} else if ks, isK := eng.ConstString(rel.X); isK {
				keys = append(keys, keyed{rel.Y, ks})
			}
		}
	}
	if len(keys) == 0 {
		return "", false
	}
	for _, b := range fn.Blocks {
		for _, in := range b.Instrs {
			call, ok := in.(*ssa.Call)
			if !ok {
				continue
			}
			g := eng.StaticCallee(call.Common())
			if g == nil || !eng.InModule(g) || len(g.Blocks) == 0 || len(call.Call.Args) != len(g.Params) {
				continue
			}
			// accepts(rule, len(base)): one argument is len(base), another a table entry
			lenIdx, ruleIdx := -1, -1
			var lk *ssa.Lookup
			for i, a := range call.Call.Args {
				if lx := eng.LenOf(eng.StripConv(a)); lx != nil && (lx == base || eng.SameLoadNoDom(lx, base)) {
					lenIdx = i
				}
				ra := eng.ResolveLocalLoad(a)
				if ld, isLd := ra.(*ssa.UnOp); isLd && ld.Op == token.MUL {
					// the entry kept in a local whose fields are read later on
					if al, isAl := ld.X.(*ssa.Alloc); isAl && al.Referrers() != nil {
						var only ssa.Value
						cnt := 0
						for _, ar := range *al.Referrers() {
							if st, isSt := ar.(*ssa.Store); isSt && st.Addr == ssa.Value(al) {
								only = st.Val
								cnt++
							}
						}
						if cnt == 1 {
							ra = only
						}
					}
				}
				if ex, isEx := ra.(*ssa.Extract); isEx && ex.Index == 0 {
					if l2, isLk := ex.Tuple.(*ssa.Lookup); isLk && l2.CommaOk {
						ruleIdx, lk = i, l2
					}
				}
			}
			if lenIdx < 0 || ruleIdx < 0 {
				continue
			}
			// the refusing edge of the check does not lead to the site
			refuses := false
			for _, cb := range fn.Blocks {
				for e := 0; e < len(cb.Succs) && len(cb.Succs) == 2; e++ {
					v, pol, okT := eng.CondTruth(cb, e)
					if !okT || v != ssa.Value(call) || pol {
						continue
					}
					seen := map[*ssa.BasicBlock]bool{}
					var reach func(x *ssa.BasicBlock) bool
					reach = func(x *ssa.BasicBlock) bool {
						if x == at {
							return true
						}
						if seen[x] {
							return false
						}
						seen[x] = true
						for _, s2 := range x.Succs {
							if reach(s2) {
								return true
							}
						}
						return false
					}
					if !reach(cb.Succs[e]) {
						refuses = true
					}
				}
			}
			if !refuses || !call.Block().Dominates(at) && !lk.Block().Dominates(at) {
				continue
			}
			// the table: a package-level map written only by its initialiser
			u, isU := lk.X.(*ssa.UnOp)
			if !isU {
				continue
			}
			gl, isG := u.X.(*ssa.Global)
			if !isG || gl.Pkg == nil {
				continue
			}
			// which field of the rule bounds n from below
			lowField := -1
			eng.EachInstr(g, func(gi ssa.Instruction) {
				bo, isB := gi.(*ssa.BinOp)
				if !isB {
					return
				}
				x, y, op := bo.X, bo.Y, bo.Op
				if op == token.GEQ {
					x, y, op = y, x, token.LEQ
				}
				if op != token.LEQ || eng.StripConv(y) != ssa.Value(g.Params[lenIdx]) {
					return
				}
				switch f := eng.StripConv(x).(type) {
				case *ssa.Field:
					if f.X == ssa.Value(g.Params[ruleIdx]) {
						lowField = f.Field
					}
				case *ssa.UnOp:
					if fa, isFA := f.X.(*ssa.FieldAddr); isFA {
						if al, isAl := fa.X.(*ssa.Alloc); isAl {
							for _, st := range eng.CellStores(al) {
								if st.Val == ssa.Value(g.Params[ruleIdx]) {
									lowField = fa.Field
								}
							}
						}
					}
				}
			})
			if lowField < 0 {
				continue
			}
			for _, kd := range keys {
				if kd.v != lk.Index {
					continue
				}
				if low, found := tableEntryInt(gl, kd.k, lowField); found && low >= need {
					return fmt.Sprintf("the argument count was checked against the rule table entry %q (at least %d) before the command was dispatched", kd.k, low), true
				}
			}
		}
	}
	return "", false
}

// tableEntryInt reads the integer constant in field `field` of the struct stored under the string
// key in the package-level map g, which must be built by the package initialiser only.
func tableEntryInt(g *ssa.Global, key string, field int) (int64, bool) {
	var mm *ssa.MakeMap
	clean := true
	for _, m := range g.Pkg.Members {
		f, isF := m.(*ssa.Function)
		if !isF {
			continue
		}
		for _, h := range eng.WithAnons(f) {
			eng.EachInstr(h, func(in ssa.Instruction) {
				switch x := in.(type) {
				case *ssa.Store:
					if x.Addr == ssa.Value(g) {
						if mk, isMk := x.Val.(*ssa.MakeMap); isMk && h.Name() == "init" && mm == nil {
							mm = mk
						} else {
							clean = false
						}
					}
				case *ssa.MapUpdate:
					if lu, ok := x.Map.(*ssa.UnOp); ok && lu.X == ssa.Value(g) {
						clean = false
					}
				}
			})
		}
	}
	if mm == nil || !clean || mm.Referrers() == nil {
		return 0, false
	}
	for _, ref := range *mm.Referrers() {
		mu, ok := ref.(*ssa.MapUpdate)
		if !ok {
			continue
		}
		ks, isK := eng.ConstString(mu.Key)
		if !isK || ks != key {
			continue
		}
		ld, isLd := mu.Value.(*ssa.UnOp)
		if !isLd {
			return 0, false
		}
		al, isAl := ld.X.(*ssa.Alloc)
		if !isAl || al.Referrers() == nil {
			return 0, false
		}
		val, set := int64(0), false
		for _, ar := range *al.Referrers() {
			fa, isFA := ar.(*ssa.FieldAddr)
			if !isFA || fa.Field != field || fa.Referrers() == nil {
				continue
			}
			for _, fr := range *fa.Referrers() {
				if st, isSt := fr.(*ssa.Store); isSt {
					k, isC := eng.ConstInt(st.Val)
					if !isC || set {
						return 0, false
					}
					val, set = k, true
				}
			}
		}
		return val, true // an omitted field is zero
	}
	return 0, false
}

// regexpPattern: the constant pattern behind a *regexp.Regexp value (see regexpGroups).
func regexpPattern(v ssa.Value) (string, bool) {
	v = eng.StripConv(v)
	if u, ok := v.(*ssa.UnOp); ok && u.Op == token.MUL {
		if g, ok := u.X.(*ssa.Global); ok {
			if init := g.Pkg.Func("init"); init != nil {
				var found ssa.Value
				eng.EachInstr(init, func(in ssa.Instruction) {
					if st, ok := in.(*ssa.Store); ok && st.Addr == ssa.Value(g) {
						found = st.Val
					}
				})
				if found != nil {
					return regexpPattern(found)
				}
			}
			return "", false
		}
	}
	call, ok := v.(*ssa.Call)
	if !ok {
		return "", false
	}
	switch eng.CalleeName(call.Common()) {
	case "regexp.MustCompile", "regexp.Compile":
	default:
		return "", false
	}
	return eng.ConstString(call.Call.Args[0])
}

// capturesUnderRepetition lists the capture groups of pat that sit inside a repeated
// sub-expression (x*, x+, x{n,m} with m != 1): a submatch keeps only what the group matched in
// its last iteration, so code that expects one value per occurrence sees only the last.
func capturesUnderRepetition(pat string) []int {
	re, err := syntax.Parse(pat, syntax.Perl)
	if err != nil {
		return nil
	}
	var out []int
	var walk func(n *syntax.Regexp, rep bool)
	walk = func(n *syntax.Regexp, rep bool) {
		switch n.Op {
		case syntax.OpCapture:
			if rep {
				out = append(out, n.Cap)
			}
		case syntax.OpStar, syntax.OpPlus:
			rep = true
		case syntax.OpRepeat:
			if n.Max != 1 {
				rep = true
			}
		}
		for _, s := range n.Sub {
			walk(s, rep)
		}
	}
	walk(re, false)
	return out
}

// paramRegexp decides, for a server package, that no constant regular expression whose
// submatches are read by the package has a capture group under a repetition.
func (c *Ctx) paramRegexp(rule, rel string, floor int) {
	p, r := c.P, c.R
	r.Rule(rule, rel+": no constant regexp used with Find…Submatch has a capture group inside a repeated sub-expression (only the last iteration's text would be kept)")
	n := 0
	ord := map[string]int{}
	for _, fn := range pkgFuncs(p, rel) {
		fn := fn
		eng.EachInstr(fn, func(in ssa.Instruction) {
			call, ok := in.(*ssa.Call)
			if !ok || len(call.Call.Args) == 0 {
				return
			}
			nm := eng.CalleeName(call.Common())
			if !strings.HasPrefix(nm, "(*regexp.Regexp).Find") || !strings.Contains(nm, "Submatch") {
				return
			}
			pat, isC := regexpPattern(call.Call.Args[0])
			if !isC {
				return
			}
			n++
			cons := siteCons(p, in, ord, "submatch")
			// the groups the code reads: constant indices into the submatch (or, for FindAll…,
			// into its elements)
			read := map[int]bool{}
			seenV := map[ssa.Value]bool{}
			var follow func(v ssa.Value, depth int)
			follow = func(v ssa.Value, depth int) {
				if depth > 6 || seenV[v] || v.Referrers() == nil {
					return
				}
				seenV[v] = true
				for _, ref := range *v.Referrers() {
					switch x := ref.(type) {
					case *ssa.IndexAddr:
						if et, isP := x.Type().Underlying().(*types.Pointer); isP {
							if bt, isB := et.Elem().Underlying().(*types.Basic); isB && bt.Kind() == types.String {
								if k, isK := eng.ConstInt(x.Index); isK {
									read[int(k)] = true
								}
								continue
							}
						}
						follow(x, depth+1)
					case *ssa.Index:
						if bt, isB := x.Type().Underlying().(*types.Basic); isB && bt.Kind() == types.String {
							if k, isK := eng.ConstInt(x.Index); isK {
								read[int(k)] = true
							}
							continue
						}
						follow(x, depth+1)
					case *ssa.Range:
						follow(x, depth+1)
					case *ssa.Next:
						follow(x, depth+1)
					case *ssa.Extract:
						follow(x, depth+1)
					case *ssa.UnOp:
						follow(x, depth+1)
					case *ssa.Phi:
						follow(x, depth+1)
					case *ssa.Store:
						if al, isAl := x.Addr.(*ssa.Alloc); isAl && x.Val == v {
							follow(al, depth+1)
						}
					}
				}
			}
			follow(call, 0)
			var caps []int
			for _, k := range capturesUnderRepetition(pat) {
				if read[k] {
					caps = append(caps, k)
				}
			}
			if len(caps) > 0 {
				r.Bad(rule, cons, p.InstrPos(in), "capture group(s) %v of %q sit inside a repetition: when the repeated part matches several times (several ESMTP parameters in one command) the submatch holds only the last occurrence, and the earlier ones — a SIZE= that is not the last parameter — are never looked at", caps, pat)
			} else {
				r.Ok(rule, cons, p.InstrPos(in), "no capture group under a repetition")
			}
		})
	}
	r.Floor(rule, "submatch calls on constant patterns", n, floor)
}
