package rules

import (
	"go/types"
	"strings"

	"golang.org/x/tools/go/ssa"

	"ibcheck/eng"
)

// helperCase is one way a helper that receives an error can end: what the path assumed about
// the error, what it did, and what it returned.
type helperCase struct {
	prmNil  eng.NS
	prmSent *eng.SentFact
	trace   []ssa.Instruction
	bools   map[int]bool   // constant boolean results by index
	ints    map[int]int64  // constant integer results by index (a classification of the error)
	nils    map[int]eng.NS // nil-state of nilable results by index
}

// c14ForkHook makes the path enumeration split at calls of handler-package helpers that take
// an error: each way the helper can return becomes a continuation of the path carrying the
// facts that way implies — about the error it was given (nil / non-nil / equal to a sentinel)
// and about its own results (a constant `done` flag, the nil-state of the error it returns) —
// and the instructions it executed (so a 404 written inside the helper is seen). This is what
// lets `if done, failure := answerStoreError(w, req, op, id, err); done { return failure }` be
// judged like the inline if-chain it replaced.
func (c *Ctx) c14ForkHook(sm *storeModel) func(in ssa.Instruction, ps *eng.PathState) []*eng.PathState {
	memo := map[*ssa.Function]map[int][]helperCase{}
	busy := false
	casesOf := func(g *ssa.Function, pi int) []helperCase {
		if m, ok := memo[g]; ok {
			if cs, ok := m[pi]; ok {
				return cs
			}
		} else {
			memo[g] = map[int][]helperCase{}
		}
		prm := g.Params[pi]
		var out []helperCase
		saved := sm.an.Fork
		sm.an.Fork = nil
		busy = true
		sm.an.Paths(g, func(in ssa.Instruction, ps *eng.PathState) {
			ret, ok := in.(*ssa.Return)
			if !ok || eng.IsRecoverBlock(ret.Block()) && !eng.DefersMayRecover(g) {
				return
			}
			hc := helperCase{prmNil: eng.NSMaybe, bools: map[int]bool{}, ints: map[int]int64{}, nils: map[int]eng.NS{}}
			if st, known := ps.Nil[prm]; known {
				hc.prmNil = st
			}
			if sf, has := ps.Sent[prm]; has {
				f := sf
				hc.prmSent = &f
			}
			hc.trace = append([]ssa.Instruction(nil), ps.Trace...)
			for i, rv := range eng.ReturnResults(ret) {
				if bv, isC := eng.ConstBool(rv); isC {
					hc.bools[i] = bv
					continue
				}
				if bt, isB := rv.Type().Underlying().(*types.Basic); isB && bt.Info()&types.IsInteger != 0 {
					if kv, isC := eng.ConstInt(rv); isC {
						hc.ints[i] = kv
					}
					continue
				}
				switch rv.Type().Underlying().(type) {
				case interface{ NumMethods() int }:
					hc.nils[i] = sm.an.Eval(rv, ps.Nil, ret.Block())
				default:
					if isErrorType(rv.Type()) {
						hc.nils[i] = sm.an.Eval(rv, ps.Nil, ret.Block())
					}
				}
			}
			out = append(out, hc)
		})
		busy = false
		sm.an.Fork = saved
		if len(out) > 64 {
			out = nil
		}
		memo[g][pi] = out
		return out
	}
	return func(in ssa.Instruction, ps *eng.PathState) []*eng.PathState {
		if busy {
			return nil
		}
		call, ok := in.(*ssa.Call)
		if !ok || call.Call.IsInvoke() {
			return nil
		}
		g := eng.StaticCallee(call.Common())
		if g == nil || len(g.Blocks) == 0 || g.Parent() != nil {
			return nil
		}
		pk := eng.FuncPkgPath(g)
		if !strings.HasSuffix(pk, "/pkg/rest") && !strings.HasSuffix(pk, "/pkg/webui") {
			return nil
		}
		pi := -1
		for i, a := range call.Call.Args {
			if isErrorType(a.Type()) && i < len(g.Params) {
				if pi >= 0 {
					return nil // more than one error argument: not handled
				}
				pi = i
			}
		}
		if pi < 0 {
			return nil
		}
		cases := casesOf(g, pi)
		if len(cases) == 0 {
			return nil
		}
		arg := call.Call.Args[pi]
		keys := []ssa.Value{arg}
		if rv := resolveCell(arg); rv != arg {
			keys = append(keys, rv)
			keys = append(keys, eng.ValueAliases(rv)...)
		} else {
			keys = append(keys, eng.ValueAliases(arg)...)
		}
		cur := sm.an.Eval(arg, ps.Nil, call.Block())
		var alts []*eng.PathState
		for _, hc := range cases {
			if cur&hc.prmNil == 0 {
				continue
			}
			contra := false
			if hc.prmSent != nil {
				for _, k := range keys {
					if old, has := ps.Sent[k]; has && old.Sentinel == hc.prmSent.Sentinel && old.Eq != hc.prmSent.Eq {
						contra = true
					}
				}
			}
			if contra {
				continue
			}
			alt := &eng.PathState{Nil: eng.Facts{}, Sent: map[ssa.Value]eng.SentFact{}, Bool: map[ssa.Value]bool{}, Int: map[ssa.Value]int64{}}
			for k, v := range ps.Int {
				alt.Int[k] = v
			}
			for k, v := range ps.Nil {
				alt.Nil[k] = v
			}
			for k, v := range ps.Sent {
				alt.Sent[k] = v
			}
			for k, v := range ps.Bool {
				alt.Bool[k] = v
			}
			for _, k := range keys {
				st := cur & hc.prmNil
				if old, has := alt.Nil[k]; has {
					st &= old
				}
				alt.Nil[k] = st
				if hc.prmSent != nil {
					alt.Sent[k] = *hc.prmSent
				}
			}
			nres := g.Signature.Results().Len()
			for i := 0; i < nres; i++ {
				var rv ssa.Value
				if nres == 1 {
					rv = call
				} else {
					rv = extractOf(call, i)
				}
				if rv == nil {
					continue
				}
				if bv, has := hc.bools[i]; has {
					alt.Bool[rv] = bv
				}
				if kv, has := hc.ints[i]; has {
					alt.Int[rv] = kv
				}
				if ns, has := hc.nils[i]; has {
					alt.Nil[rv] = ns
				}
			}
			alt.Trace = append(append([]ssa.Instruction(nil), ps.Trace...), hc.trace...)
			alts = append(alts, alt)
		}
		if len(alts) == 0 {
			return nil
		}
		return alts
	}
}
