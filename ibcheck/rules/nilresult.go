package rules

import (
	"go/token"
	"go/types"
	"strings"

	"golang.org/x/tools/go/ssa"

	"ibcheck/eng"
)

// nilResultUses: for every call in fns that returns (T, error) with T an interface or pointer,
// every use of the T result that needs it non-nil — as the receiver of a method call, as the
// base of a field access, or handed to a helper of the module that uses its parameter that way,
// each of them also when deferred — must lie where the call's error is known nil (or the value
// itself has been tested non-nil). By the Go
// convention a failing producer returns (nil, err); such a use then panics, and a panic in a
// session goroutine that has no recover ends the whole server process.
//
// report(site, producer, what) is called for each violating use; the function returns the
// number of producers examined.
func (c *Ctx) nilResultUses(fns []*ssa.Function, report func(use ssa.Instruction, producer *ssa.Call, what string)) int {
	n := 0
	for _, fn := range fns {
		fn := fn
		eng.EachInstr(fn, func(in ssa.Instruction) {
			call, ok := in.(*ssa.Call)
			if !ok {
				return
			}
			tup, ok := call.Type().(*types.Tuple)
			if !ok || tup.Len() != 2 || !isErrorType(tup.At(1).Type()) {
				return
			}
			switch tup.At(0).Type().Underlying().(type) {
			case *types.Interface, *types.Pointer:
			default:
				return
			}
			v, ev := extractOf(call, 0), extractOf(call, 1)
			if v == nil || ev == nil {
				return
			}
			n++
			// the value and the loads of the local variable it is stored in
			type loc struct {
				v  ssa.Value
				at func(use ssa.Instruction) *ssa.BasicBlock
			}
			here := func(use ssa.Instruction) *ssa.BasicBlock { return use.Block() }
			vals := []loc{{v, here}}
			if v.Referrers() != nil {
				for _, ref := range *v.Referrers() {
					st, ok := ref.(*ssa.Store)
					if !ok || st.Val != v {
						continue
					}
					cell := eng.CellOf(st.Addr)
					if cell == nil || len(eng.CellStores(cell)) != 1 || cell.Referrers() == nil {
						continue
					}
					for _, cr := range *cell.Referrers() {
						switch y := cr.(type) {
						case *ssa.UnOp:
							vals = append(vals, loc{y, here})
						case *ssa.MakeClosure:
							// captured: the closure's loads count where the closure is created
							g, _ := y.Fn.(*ssa.Function)
							if g == nil {
								continue
							}
							mk := y
							for bi, b := range y.Bindings {
								if b != ssa.Value(cell) || bi >= len(g.FreeVars) || g.FreeVars[bi].Referrers() == nil {
									continue
								}
								for _, fr := range *g.FreeVars[bi].Referrers() {
									if u, ok := fr.(*ssa.UnOp); ok {
										vals = append(vals, loc{u, func(ssa.Instruction) *ssa.BasicBlock { return mk.Block() }})
									}
								}
							}
						}
					}
				}
			}
			// interface conversions of the value are the value
			for i := 0; i < len(vals); i++ {
				if vals[i].v.Referrers() == nil {
					continue
				}
				for _, ref := range *vals[i].v.Referrers() {
					switch y := ref.(type) {
					case *ssa.ChangeInterface:
						vals = append(vals, loc{y, vals[i].at})
					case *ssa.ChangeType:
						vals = append(vals, loc{y, vals[i].at})
					}
				}
			}
			for _, l := range vals {
				if l.v.Referrers() == nil {
					continue
				}
				for _, ref := range *l.v.Referrers() {
					what := ""
					switch x := ref.(type) {
					case ssa.CallInstruction:
						cc := x.Common()
						if cc.IsInvoke() && cc.Value == l.v {
							what = "method " + cc.Method.Name() + " is called on it"
							break
						}
						// handed to a function outside the module under a parameter type that has
						// methods (io.Reader, io.Writer, …): the callee is going to call them
						if g := eng.StaticCallee(cc); g != nil && !eng.InModule(g) && !cc.IsInvoke() {
							sig := g.Signature
							for i, a := range cc.Args {
								if a != l.v {
									continue
								}
								pi := i
								if sig.Recv() != nil {
									pi = i - 1
								}
								if pi < 0 || pi >= sig.Params().Len() || (sig.Variadic() && pi == sig.Params().Len()-1) {
									continue
								}
								if it, isI := sig.Params().At(pi).Type().Underlying().(*types.Interface); isI && it.NumMethods() > 0 && !isErrorType(sig.Params().At(pi).Type()) {
									what = "it is handed to " + eng.CalleeName(cc) + " as a " + types.TypeString(sig.Params().At(pi).Type(), nil) + ", whose methods that function calls"
								}
							}
						}
						if g := eng.StaticCallee(cc); g != nil && eng.InModule(g) && len(g.Blocks) > 0 {
							for i, a := range cc.Args {
								if a == l.v && i < len(g.Params) && derefsParam(g.Params[i]) {
									what = "it is passed to " + shortFn(g) + ", which uses it without a nil test"
								}
							}
						}
					case *ssa.FieldAddr:
						if x.X == l.v {
							what = "a field of it is accessed"
						}
					}
					if what == "" {
						continue
					}
					if !eng.KnownNil(ev, l.at(ref)) && !eng.KnownNonNil(l.v, l.at(ref)) && !eng.KnownNonNil(v, l.at(ref)) && !errJudgedByHelper(ev, l.at(ref)) {
						report(ref, call, what)
					}
				}
			}
		})
	}
	return n
}

// derefsParam: the function uses its parameter as a method receiver or field base somewhere
// that is not dominated by a non-nil test of it.
func derefsParam(prm *ssa.Parameter) bool {
	if prm.Referrers() == nil {
		return false
	}
	for _, ref := range *prm.Referrers() {
		switch x := ref.(type) {
		case ssa.CallInstruction:
			if cc := x.Common(); cc.IsInvoke() && cc.Value == ssa.Value(prm) && !eng.KnownNonNil(prm, x.Block()) {
				return true
			}
		case *ssa.FieldAddr:
			if x.X == ssa.Value(prm) && !eng.KnownNonNil(prm, x.Block()) {
				return true
			}
		}
	}
	return false
}

// errJudgedByHelper: the error went to a helper of the module whose result decides a branch
// that dominates the use (an "answer the failure, tell me whether to stop" helper). What the
// helper concludes is not this rule's to say; the use is left to the rules that follow values
// through calls.
func errJudgedByHelper(ev ssa.Value, at *ssa.BasicBlock) bool {
	if ev.Referrers() == nil || at == nil {
		return false
	}
	for _, ref := range *ev.Referrers() {
		call, ok := ref.(*ssa.Call)
		if !ok {
			continue
		}
		g := eng.StaticCallee(call.Common())
		if g == nil || !eng.InModule(g) || !call.Block().Dominates(at) {
			continue
		}
		outs := []ssa.Value{call}
		if call.Referrers() != nil {
			for _, cr := range *call.Referrers() {
				if ex, ok := cr.(*ssa.Extract); ok {
					outs = append(outs, ex)
				}
			}
		}
		for _, o := range outs {
			if o.Referrers() == nil {
				continue
			}
			for _, or := range *o.Referrers() {
				if br, ok := or.(*ssa.If); ok && br.Block() != at && br.Block().Dominates(at) {
					return true
				}
			}
		}
	}
	return false
}

// errContradictions decides two contradiction patterns in fns (functions that return an error):
//
//	(a) a return whose error is built from another error (fmt.Errorf/errors wrap with that error
//	    among the arguments) at a point where that error is known to be nil: the failure report
//	    sits on the success edge — and the real failures take the other, "all is well" path;
//	(b) a return of a constant nil error that is dominated by the non-nil edge of an error some
//	    call of the function produced, with no sentinel/not-exist test in between: the failure
//	    branch itself reports success.
//
// Both are wrong whatever the surrounding code means, so the rule needs no table of idioms.
func (c *Ctx) errContradictions(rule string, fns []*ssa.Function, consequence string) int {
	p, r := c.P, c.R
	n := 0
	ord := map[string]int{}
	for _, fn := range fns {
		res := fn.Signature.Results()
		if res.Len() == 0 || !isErrorType(res.At(res.Len()-1).Type()) || len(fn.Blocks) == 0 {
			continue
		}
		// errors produced by calls of this function
		var errs []ssa.Value
		eng.EachInstr(fn, func(in ssa.Instruction) {
			call, ok := in.(*ssa.Call)
			if !ok {
				return
			}
			if tup, isT := call.Type().(*types.Tuple); isT {
				if tup.Len() > 0 && isErrorType(tup.At(tup.Len()-1).Type()) {
					if e := extractOf(call, tup.Len()-1); e != nil {
						errs = append(errs, e)
					}
				}
			} else if isErrorType(call.Type()) {
				errs = append(errs, call)
			}
		})
		eng.EachInstr(fn, func(in ssa.Instruction) {
			ret, ok := in.(*ssa.Return)
			if !ok || in.Parent() != fn || eng.IsRecoverBlock(ret.Block()) {
				return
			}
			rr := eng.ReturnResults(ret)
			if len(rr) == 0 {
				return
			}
			e := eng.ResolveLocalLoad(rr[len(rr)-1])
			n++
			cons := siteCons(p, in, ord, "return")
			// (a)
			if wc, isCall := e.(*ssa.Call); isCall {
				nm := eng.CalleeName(wc.Common())
				if nm == "fmt.Errorf" || strings.HasPrefix(nm, "github.com/pkg/errors.Wrap") || nm == "errors.Join" {
					wrapsNil := ""
					eng.BackSlice(e, func(v ssa.Value) bool {
						for _, ev := range errs {
							for _, al := range append(eng.ValueAliases(ev), ev) {
								if v == al && eng.KnownNil(ev, ret.Block()) {
									wrapsNil = p.InstrPos(ev.(ssa.Instruction))
								}
							}
						}
						return false
					})
					if wrapsNil != "" {
						r.Bad(rule, cons, p.InstrPos(ret), "this return reports a failure built from the error of %s, which is known to be nil here: the test is the wrong way round — a call that succeeded is answered with an error, and one that failed goes on as if it had succeeded; %s", wrapsNil, consequence)
						return
					}
				}
			}
			// (b)
			if eng.IsNilConst(e) {
				for _, ev := range errs {
					if !eng.KnownNonNil(ev, ret.Block()) {
						continue
					}
					// excused by a sentinel / not-exist test on the way
					excused := false
					for _, b := range fn.Blocks {
						for k := 0; k < len(b.Succs) && len(b.Succs) == 2; k++ {
							if !eng.EdgeDominates(b, k, ret.Block()) {
								continue
							}
							if rel, okR := eng.EdgeRel(b, k); okR && (rel.Op == token.EQL || rel.Op == token.NEQ) && !eng.IsNilConst(rel.X) && !eng.IsNilConst(rel.Y) {
								excused = true
							}
							if v, _, okT := eng.CondTruth(b, k); okT {
								if cc, isC := v.(*ssa.Call); isC {
									excused = true // a classifier call (os.IsNotExist, errors.Is, a module helper)
									_ = cc
								}
								if _, isPhi := v.(*ssa.Phi); isPhi {
									excused = true
								}
							}
						}
					}
					// an HTTP handler that answers the failure itself (http.Error, NotFound, a
					// rendered error page) and then returns nil has reported it — to the client
					if !excused {
						for _, b := range fn.Blocks {
							if !(b == ret.Block() || b.Dominates(ret.Block())) || !eng.KnownNonNil(ev, b) {
								continue
							}
							for _, bi := range b.Instrs {
								ci, isCI := bi.(ssa.CallInstruction)
								if !isCI {
									continue
								}
								for _, a := range ci.Common().Args {
									if nt, isN := a.Type().(*types.Named); isN && nt.Obj().Pkg() != nil && nt.Obj().Pkg().Path() == "net/http" && nt.Obj().Name() == "ResponseWriter" {
										excused = true
									}
								}
							}
						}
					}
					if !excused {
						r.Bad(rule, cons, p.InstrPos(ret), "this return reports success although it lies on the branch where the error of %s is not nil: %s", p.InstrPos(ev.(ssa.Instruction)), consequence)
						return
					}
				}
			}
			r.Ok(rule, cons, p.InstrPos(ret), "no failure built from a nil error, no success on a failure branch")
		})
	}
	return n
}
