package rules

import (
	"fmt"
	"go/token"
	"go/types"
	"sort"
	"strings"

	"golang.org/x/tools/go/ssa"

	"ibcheck/eng"
)

func init() { Registry["C10"] = checkC10 }

const fileRel = "pkg/storage/file"

func checkC10(c *Ctx) {
	r, p := c.R, c.P
	r.Explanation = "Decides that nothing the file store promises lives only in memory and that what it writes can be read back by a fresh process: (D1) every mutation of an mbox's message list or of a persisted Message field inside a store operation is followed, on every path to a success-capable return, by writeIndex(); (D2) writer/reader agreement of the index codec — writeIndex encodes the mailbox name then each message, readIndex decodes a name then messages until EOF into the same types and assigns the name; every field of file.Message except the back-pointer is exported (gob silently drops unexported fields) and every storage.Message getter returns one of those exported fields; (D3) file.Store has no field that can cache mailbox contents, every mbox is built per operation with the index not loaded, and every read of the message list is preceded by the load-if-needed guard; (D4) file.New performs no destructive file-system effect; (D5) the two mbox constructors (by name, used by every operation; by directory hash, used when the tree is rediscovered after a restart) compute path, indexPath, dirName and lock as the same expressions of (mailPath, hash)."
	r.NotDecided = []string{"equality of what is read back after a restart", "id collisions across a restart within the same second", "gob encoding internals"}
	r.Assumptions = []string{"encoding/gob round-trips exported fields of the same types", "HashMailboxName is deterministic (pure function of the name)"}
	r.Rule("C10/PERSIST", "every mutation of mbox.messages or of a persisted (exported) file.Message field of a non-fresh message is followed by writeIndex() on every path to a return that can report success")
	r.Rule("C10/CODEC", "writeIndex: Encode(name) then Encode(each message); readIndex: Decode(&name), mb.name = name, then Decode(new Message) until EOF; same types; all persisted fields exported; getters return persisted fields")
	r.Rule("C10/NO-MEMORY-STATE", "file.Store has no mailbox-content cache field; mbox constructors leave indexLoaded false; every read of mbox.messages is preceded by the `!indexLoaded → readIndex` guard")
	r.Rule("C10/START", "file.New performs no destructive file-system effect (only Stat/MkdirAll)")
	r.Rule("C10/PATH/agree", "mbox() and mboxFromHash() compute path, indexPath, dirName and RWMutex as identical expressions of (mailPath, hash)")
	pm := c.pairing()
	fm := c.fsModel()
	if !pm.ok || fm == nil {
		return
	}
	readIndex := p.Method(fileRel, "mbox", "readIndex")
	writeIndex := fm.writeIdx
	msgT := p.Named(fileRel, "Message")
	storeT := p.Named(fileRel, "Store")
	mboxT := p.Named(fileRel, "mbox")
	fLoaded := p.Field(fileRel, "mbox", "indexLoaded")
	fName := p.Field(fileRel, "mbox", "name")
	if readIndex == nil || msgT == nil || storeT == nil || mboxT == nil || fLoaded == nil || fName == nil {
		return
	}
	isWI := func(in ssa.Instruction) bool {
		call, ok := in.(*ssa.Call)
		if !ok {
			return false
		}
		g := eng.StaticCallee(call.Common())
		if g == writeIndex || (g != nil && eng.FuncPkgPath(g) == eng.Mod+"/"+fileRel && reachesSync(g, writeIndex)) {
			return true
		}
		// the other way an (empty) mailbox is made durable: its directory is removed — an absent
		// index reads as an empty mailbox (C07/EMPTY). Counted only where the list is known to be
		// empty: behind a `len(messages) == 0` edge, or after it was cut to [:0] in this function
		if g != nil && fm.removeDir != nil && eng.FuncPkgPath(g) == eng.Mod+"/"+fileRel && (g == fm.removeDir || reachesSync(g, fm.removeDir)) {
			fn := call.Parent()
			for _, b := range fn.Blocks {
				for k := 0; k < len(b.Succs) && len(b.Succs) == 2; k++ {
					rel, okR := eng.EdgeRel(b, k)
					if !okR || rel.Op != token.EQL || !eng.EdgeDominates(b, k, call.Block()) {
						continue
					}
					if kk, isK := eng.ConstInt(rel.Y); isK && kk == 0 {
						if lx := eng.LenOf(eng.StripConv(rel.X)); lx != nil && eng.SameField(eng.LoadedField(lx), pm.fileMsgs) {
							return true
						}
					}
				}
			}
			cleared := false
			eng.EachInstr(fn, func(x ssa.Instruction) {
				st, isSt := x.(*ssa.Store)
				if !isSt || !eng.Dominates(x, call) {
					return
				}
				if fa, isFA := st.Addr.(*ssa.FieldAddr); isFA && eng.SameField(eng.FieldOfAddr(fa), pm.fileMsgs) {
					if sl, isSl := st.Val.(*ssa.Slice); isSl && sl.High != nil {
						if hk, isK := eng.ConstInt(sl.High); isK && hk == 0 {
							cleared = true
						}
					}
				}
			})
			return cleared
		}
		return false
	}
	successRet := func(in ssa.Instruction) bool {
		ret, ok := in.(*ssa.Return)
		if !ok || eng.IsRecoverBlock(ret.Block()) {
			return false
		}
		res := eng.ReturnResults(ret)
		if len(res) == 0 {
			return true
		}
		e := res[len(res)-1]
		if !types.Identical(e.Type(), types.Universe.Lookup("error").Type()) {
			return true
		}
		if definitelyNonNilErr(e) || eng.KnownNonNil(e, ret.Block()) {
			return false
		}
		return true
	}
	// ---- D1
	type mut struct {
		fn   *ssa.Function
		in   ssa.Instruction
		what string
	}
	var muts []mut
	for _, s := range append(append([]removeSite{}, pm.adds...), pm.removes...) {
		if s.store == "file" {
			muts = append(muts, mut{s.fn, s.in, "mbox.messages " + s.kind})
		}
	}
	for _, fn := range pkgFuncs(p, fileRel) {
		fn := fn
		eng.EachInstr(fn, func(in ssa.Instruction) {
			st, ok := in.(*ssa.Store)
			if !ok {
				return
			}
			fa, ok := st.Addr.(*ssa.FieldAddr)
			if !ok {
				return
			}
			f := eng.FieldOfAddr(fa)
			if f == nil || !f.Exported() {
				return
			}
			t := fa.X.Type()
			if pt, ok := t.(*types.Pointer); ok {
				t = pt.Elem()
			}
			if !types.Identical(t, msgT) {
				return
			}
			if _, fresh := fa.X.(*ssa.Alloc); fresh {
				return
			}
			muts = append(muts, mut{fn, in, "Message." + f.Name()})
		})
	}
	for _, u := range pm.unknown {
		if u.store == "file" {
			r.Undecided("C10/PERSIST", siteName(u), p.InstrPos(u.in), "unclassified writer of file.mbox.messages: the rule cannot tell whether this mutation is persisted before every return (error returns included) — a mailbox list changed in memory without a matching index write is lost or contradicts the disk after a restart")
		}
	}
	r.Floor("C10/PERSIST", "mutation sites", len(muts), 1)
	ord := map[string]int{}
	for _, mu := range muts {
		cons := siteCons(p, mu.in, ord, "mutation:"+mu.what)
		// the mutation lives in fn; success returns of fn must be preceded by writeIndex, or
		// (for helpers like newMessage whose caller persists) every caller does it after the call
		v := c.persistAfter(mu.fn, mu.in, isWI, successRet, 0)
		if v == "" {
			r.Ok("C10/PERSIST", cons, p.InstrPos(mu.in), "followed by writeIndex() on every path to a success-capable return (in the function or in every caller)")
		} else {
			r.Bad("C10/PERSIST", cons, p.InstrPos(mu.in), "%s: the change exists only in this process and is lost at restart", v)
		}
	}
	c.c10Codec(fm, readIndex, msgT, fName)
	c.c10LoadErrors(readIndex)
	c.c10NoMemory(pm, storeT, mboxT, readIndex, fLoaded)
	// ---- D4
	newFn := p.Func(fileRel, "New")
	if newFn != nil {
		var bad []string
		n := 0
		for _, e := range fm.effects {
			if e.fn != newFn {
				continue
			}
			n++
			if e.op != "MkdirAll" && e.op != "Mkdir" {
				bad = append(bad, "os."+e.op+" at "+p.InstrPos(e.call))
			}
		}
		if len(bad) > 0 {
			r.Bad("C10/START", "file.New", p.Pos(newFn.Pos()), "opening the store performs destructive file-system effects: %s", strings.Join(bad, "; "))
		} else {
			r.Ok("C10/START", "file.New", p.Pos(newFn.Pos()), "%d fs-mutating call(s), only directory creation", n)
		}
	}
	c.c10Paths()
	c.c10LiteralPath()
	r.Rule("C10/PERSIST/errors", "in the file store every error the code tests against nil is reported on its failure branch: no return reachable there reports success (except behind an explicit not-exist / EOF test); a failed write, flush, close, rename or unlink never looks like a completed one")
	nE := c.storeErrorsPropagate("C10/PERSIST/errors", pkgFuncs(p, fileRel), "the operation is reported as done although the file system refused it: what the store says it holds and what is on disk part ways, and a restart shows the difference")
	r.Floor("C10/PERSIST/errors", "tested errors in the file store", nE, 10)
	// what writeIndex reports as written is what a fresh process will read: the temporary
	// index is installed only after a successful flush and close (decided by C11's rule)
	// a purged mailbox stays gone across a restart: the index goes first (decided by C11), so a
	// stop part-way cannot leave an index that lists messages whose bodies were already removed
	nP := c.borrow(func(c2 *Ctx) {
		if m2 := c2.fsModel(); m2 != nil {
			c2.c11Purge(m2)
		}
	}, "C11/ORDER/purge", "C10/PURGE/index-first", "when a mailbox directory is removed the index is unlinked before anything else")
	r.Floor("C10/PURGE/index-first", "borrowed obligations", nP, 1)
	nB := c.borrow(checkC11, "C11/ATOMIC/index/", "C10/PERSIST/index-install", "the new index replaces the old one only after its buffered writer was flushed and the file closed without error: a write fault cannot be reported as success while an incomplete index is installed")
	r.Floor("C10/PERSIST/index-install", "borrowed obligations", nB, 1)
	// an index written back from a snapshot that was loaded in an earlier critical section
	// silently undoes, on disk, the deliveries and removals committed in between (decided by
	// C09's bucket-lock rule for the file store's methods)
	nS := c.borrow(func(c2 *Ctx) {
		if pm := c2.pairing(); pm.ok {
			c2.c09File(pm)
		}
	}, "C09/GUARD/file/(*file.Store).", "C10/PERSIST/no-stale-writeback", "every file.Store method that writes the index loads it and writes it back inside one critical section of the mailbox's bucket lock, in write mode")
	r.Floor("C10/PERSIST/no-stale-writeback", "borrowed obligations", nS, 1)
}

// persistAfter returns "" if every success-capable return after `at` passes writeIndex,
// looking one caller level up when fn itself never persists after the mutation.
func (c *Ctx) persistAfter(fn *ssa.Function, at ssa.Instruction, isWI, successRet eng.Pred, depth int) string {
	p := c.P
	miss := (&eng.Search{Target: successRet, Avoid: isWI}).After(at)
	if miss == nil {
		return ""
	}
	if depth >= 2 {
		return "a path from " + p.InstrPos(at) + " returns at " + p.InstrPos(miss) + " without writeIndex()"
	}
	// helper: all callers must persist after the call
	callers := p.CallersOf(fn)
	if len(callers) == 0 || isStoreAPI(fn) {
		return "a path from " + p.InstrPos(at) + " returns successfully at " + p.InstrPos(miss) + " without writeIndex()"
	}
	for _, e := range callers {
		if eng.FuncPkgPath(e.Caller.Func) != eng.FuncPkgPath(fn) {
			continue
		}
		if v := c.persistAfter(e.Caller.Func, e.Site.(ssa.Instruction), isWI, successRet, depth+1); v != "" {
			return "caller " + shortFn(e.Caller.Func) + ": " + v
		}
	}
	return ""
}

// c10RecordList decides the one-Encode form of writeIndex: enc encodes, in a loop that walks a
// slice from its first element, the elements of a list that was built as the mailbox name
// followed by each element of mbox.messages in order. Returns "" or what is wrong.
func (c *Ctx) c10RecordList(enc *ssa.Call, fName *types.Var, msgT *types.Named) string {
	pm := c.pairing()
	// the encoded value: element i of a slice, i the loop counter
	u, ok := enc.Call.Args[1].(*ssa.UnOp)
	if !ok {
		return "the single Encode site does not encode the elements of a record list"
	}
	ia, ok := u.X.(*ssa.IndexAddr)
	if !ok || !isRangeCounter(ia.Index) || len(loopHeaders(enc.Block())) != 1 {
		return "the single Encode site does not walk a record list from its first element"
	}
	// the list: a local or the result of a package helper
	vals := []ssa.Value{ia.X}
	if call, isCall := ia.X.(*ssa.Call); isCall {
		rets, g := eng.ReturnedValues(call, 0)
		if g == nil || len(rets) == 0 {
			return "the record list comes from a call that cannot be resolved"
		}
		vals = rets
	}
	var head, loop []*ssa.Call
	seen := map[ssa.Value]bool{}
	var walk func(v ssa.Value) bool
	walk = func(v ssa.Value) bool {
		if seen[v] {
			return true
		}
		seen[v] = true
		switch x := v.(type) {
		case *ssa.Phi:
			for _, e := range x.Edges {
				if !walk(e) {
					return false
				}
			}
			return true
		case *ssa.MakeSlice:
			k, isK := eng.ConstInt(x.Len)
			return isK && k == 0
		case *ssa.Const:
			return x.IsNil()
		case *ssa.Call:
			if eng.CalleeName(x.Common()) != "builtin.append" {
				return false
			}
			if len(loopHeaders(x.Block())) > 0 {
				loop = append(loop, x)
			} else {
				head = append(head, x)
			}
			return walk(x.Call.Args[0])
		}
		return false
	}
	for _, v := range vals {
		if !walk(v) {
			return "the record list is not built by appending to an empty slice"
		}
	}
	if len(head) != 1 || len(loop) != 1 || !eng.Dominates(head[0], loop[0]) {
		return fmt.Sprintf("the record list is not one leading record followed by one loop of records (leading appends=%d, loop appends=%d)", len(head), len(loop))
	}
	elems := func(ap *ssa.Call) []ssa.Value {
		var out []ssa.Value
		sl, ok := ap.Call.Args[1].(*ssa.Slice)
		if !ok {
			return nil
		}
		al, ok := sl.X.(*ssa.Alloc)
		if !ok {
			return nil
		}
		for _, ref := range *al.Referrers() {
			if ia, ok := ref.(*ssa.IndexAddr); ok {
				for _, r2 := range *ia.Referrers() {
					if st, ok := r2.(*ssa.Store); ok {
						out = append(out, st.Val)
					}
				}
			}
		}
		return out
	}
	he, le := elems(head[0]), elems(loop[0])
	if len(he) != 1 || len(le) != 1 {
		return "the record list appends more than one record at a time"
	}
	if mi, ok := he[0].(*ssa.MakeInterface); !ok || !eng.SameField(eng.LoadedField(mi.X), fName) {
		return "the first encoded record is not mbox.name"
	}
	mi, ok := le[0].(*ssa.MakeInterface)
	if !ok || !types.Identical(mi.X.Type(), types.NewPointer(msgT)) {
		return "the repeated encoded record is not *file.Message"
	}
	// each message in order: element of mbox.messages at the range counter
	mu, ok := mi.X.(*ssa.UnOp)
	if !ok {
		return "the repeated record is not an element of mbox.messages"
	}
	mia, ok := mu.X.(*ssa.IndexAddr)
	if !ok || !isRangeCounter(mia.Index) || !pm.ok || !eng.SameField(eng.LoadedField(mia.X), pm.fileMsgs) || len(loopHeaders(loop[0].Block())) != 1 {
		return "the repeated records are not the elements of mbox.messages in order"
	}
	return ""
}

// isRangeCounter: v is the counter of a slice range loop: φ(-1 | 0, itself + 1), or that + 1.
func isRangeCounter(v ssa.Value) bool {
	if b, ok := v.(*ssa.BinOp); ok && b.Op == token.ADD {
		if k, isK := eng.ConstInt(b.Y); isK && k == 1 {
			v = b.X
		}
	}
	ph, ok := v.(*ssa.Phi)
	if !ok || len(ph.Edges) != 2 {
		return false
	}
	init, step := false, false
	for _, e := range ph.Edges {
		if k, isK := eng.ConstInt(e); isK && (k == 0 || k == -1) {
			init = true
			continue
		}
		if b, ok := e.(*ssa.BinOp); ok && b.Op == token.ADD && b.X == ssa.Value(ph) {
			if k, isK := eng.ConstInt(b.Y); isK && k == 1 {
				step = true
			}
		}
	}
	return init && step
}

// decodeOrdered sorts the two Decode sites of the index reader into (first, repeated) and says
// why not if their order is not fixed. They may sit in one function (dominance decides), or the
// repeated one may sit in a helper that the first one's function calls after its own Decode
// (`err = decodeEach(dec, add)`): then the call site stands for the helper's Decode.
func (c *Ctx) decodeOrdered(decs []*ssa.Call) (first, rep *ssa.Call, repLoop bool, why string) {
	a, b := decs[0], decs[1]
	if a.Parent() == b.Parent() {
		if eng.Dominates(b, a) {
			a, b = b, a
		}
		if !eng.Dominates(a, b) {
			return a, b, false, "name and message records are not decoded in a fixed order"
		}
		return a, b, len(loopHeaders(b.Block())) == 1 && len(loopHeaders(a.Block())) == 0, ""
	}
	for i := 0; i < 2; i++ {
		// b in a helper called from a's function after a
		for _, cs := range c.P.StaticCallSites(eng.Outer(b.Parent())) {
			site, ok := cs.Instr.(*ssa.Call)
			if !ok || site.Parent() != a.Parent() {
				continue
			}
			if eng.Dominates(a, site) {
				inLoop := len(loopHeaders(b.Block())) == 1 || len(loopHeaders(site.Block())) == 1
				return a, b, inLoop && len(loopHeaders(a.Block())) == 0, ""
			}
		}
		a, b = b, a
	}
	return decs[0], decs[1], false, "the name and message records are decoded in different functions whose order cannot be decided"
}

func (c *Ctx) c10Codec(fm *fsModel, readIndex *ssa.Function, msgT *types.Named, fName *types.Var) {
	r, p := c.R, c.P
	w := fm.writeIdx
	var encs, decs []*ssa.Call
	inPkg := func(root *ssa.Function) []*ssa.Function {
		var out []*ssa.Function
		for fn := range p.SyncReach(root) {
			if eng.FuncPkgPath(fn) == eng.Mod+"/"+fileRel {
				out = append(out, fn)
			}
		}
		sortFuncs(out)
		return out
	}
	wFns, rFns := inPkg(w), inPkg(readIndex)
	for _, fn := range wFns {
		eng.EachInstr(fn, func(in ssa.Instruction) {
			if call, ok := in.(*ssa.Call); ok && eng.CalleeName(call.Common()) == "(*encoding/gob.Encoder).Encode" {
				encs = append(encs, call)
			}
		})
	}
	for _, fn := range rFns {
		eng.EachInstr(fn, func(in ssa.Instruction) {
			if call, ok := in.(*ssa.Call); ok && eng.CalleeName(call.Common()) == "(*encoding/gob.Decoder).Decode" {
				decs = append(decs, call)
			}
		})
	}
	argT := func(call *ssa.Call) types.Type {
		a := call.Call.Args[1]
		if mi, ok := a.(*ssa.MakeInterface); ok {
			return mi.X.Type()
		}
		return a.Type()
	}
	var probs []string
	if len(encs) == 1 && len(decs) == 2 {
		// one Encode in a loop over a record list built as [name, messages...]
		if why := c.c10RecordList(encs[0], fName, msgT); why != "" {
			probs = append(probs, why)
		}
		dA, dB, repLoop, why := c.decodeOrdered(decs)
		decs[0], decs[1] = dA, dB
		d0, d1 := argT(decs[0]), argT(decs[1])
		if why != "" {
			probs = append(probs, why)
		}
		if pt, ok := d0.(*types.Pointer); !ok || !isString(pt.Elem()) {
			probs = append(probs, "the first decoded record ("+d0.String()+") does not match the first encoded record (string)")
		}
		if !types.Identical(d1, types.NewPointer(msgT)) {
			probs = append(probs, "the repeated decoded record ("+d1.String()+") does not match the encoded one (*file.Message)")
		}
		if why == "" && !repLoop {
			probs = append(probs, "records are not read as one name followed by a single loop of messages")
		}
	} else if len(encs) != 2 || len(decs) != 2 {
		probs = append(probs, fmt.Sprintf("expected 2 Encode sites (name, message) and 2 Decode sites, found %d and %d", len(encs), len(decs)))
	} else if encs[0].Parent() != encs[1].Parent() {
		probs = append(probs, "the name and message records are encoded in different functions: their order cannot be decided")
	} else {
		sort.Slice(encs, func(i, j int) bool { return eng.Dominates(encs[i], encs[j]) })
		dA, dB, repLoop, why := c.decodeOrdered(decs)
		decs[0], decs[1] = dA, dB
		if why != "" {
			probs = append(probs, why)
		}
		// order: name first (dominates), message in a loop
		if !eng.Dominates(encs[0], encs[1]) {
			probs = append(probs, "name and message records are not encoded in a fixed order")
		}
		t0, t1 := argT(encs[0]), argT(encs[1])
		d0, d1 := argT(decs[0]), argT(decs[1])
		if !isString(t0) {
			probs = append(probs, "the first encoded record is not the mailbox name (string)")
		} else if mi, ok := encs[0].Call.Args[1].(*ssa.MakeInterface); !ok || !eng.SameField(eng.LoadedField(mi.X), fName) {
			probs = append(probs, "the first encoded record is not mbox.name")
		}
		if pt, ok := d0.(*types.Pointer); !ok || !types.Identical(pt.Elem(), t0) {
			probs = append(probs, "the first decoded record ("+d0.String()+") does not match the first encoded record ("+t0.String()+")")
		}
		if !types.Identical(t1, types.NewPointer(msgT)) {
			probs = append(probs, "the repeated encoded record is not *file.Message")
		}
		if !types.Identical(d1, t1) {
			probs = append(probs, "the repeated decoded record ("+d1.String()+") does not match the encoded one ("+t1.String()+")")
		}
		if len(loopHeaders(encs[1].Block())) != 1 || (why == "" && !repLoop) {
			probs = append(probs, "message records are not written/read in a single loop")
		}
		if len(loopHeaders(encs[0].Block())) != 0 {
			probs = append(probs, "the name record is inside a loop")
		}
	}
	// mb.name = name after decoding
	nameSet := false
	for _, s := range eng.StoresToField(rFns, fName) {
		_ = s
		nameSet = true
	}
	if !nameSet {
		probs = append(probs, "readIndex does not restore mbox.name: after a restart VisitMailboxes-discovered mailboxes have no name and their messages cannot be addressed")
	}
	if len(probs) > 0 {
		r.Bad("C10/CODEC", "index-records", p.Pos(w.Pos()), "%s", strings.Join(probs, "; "))
	} else {
		r.Ok("C10/CODEC", "index-records", p.Pos(w.Pos()), "writeIndex: Encode(name), loop Encode(*Message); readIndex: Decode(*string), name restored, loop Decode(*Message)")
	}
	// exported fields
	st := msgT.Underlying().(*types.Struct)
	var unexp []string
	persisted := map[*types.Var]bool{}
	for i := 0; i < st.NumFields(); i++ {
		f := st.Field(i)
		if pt, ok := f.Type().(*types.Pointer); ok {
			if n, ok := pt.Elem().(*types.Named); ok && n.Obj().Name() == "mbox" {
				continue // back-pointer, restored by readIndex
			}
		}
		if !f.Exported() {
			unexp = append(unexp, f.Name())
		} else {
			persisted[f] = true
		}
	}
	if len(unexp) > 0 {
		r.Bad("C10/CODEC", "exported-fields", p.Pos(msgT.Obj().Pos()), "file.Message field(s) %v are unexported: gob drops them silently, so they read back as zero after a restart", unexp)
	} else {
		r.Ok("C10/CODEC", "exported-fields", p.Pos(msgT.Obj().Pos()), "%d persisted fields, all exported", len(persisted))
	}
	r.Floor("C10/CODEC", "persisted fields of file.Message", len(persisted), 1)
	// getters
	sm := c.stores()
	if !sm.ok {
		return
	}
	for i := 0; i < sm.msgIface.NumMethods(); i++ {
		name := sm.msgIface.Method(i).Name()
		if name == "Source" {
			continue
		}
		fn := p.MethodOf(msgT, name)
		if fn == nil {
			continue
		}
		cons := "getter:" + name
		okG := true
		what := ""
		for _, ret := range successReturns(fn) {
			f := eng.LoadedField(eng.ReturnResults(ret)[0])
			switch {
			case f != nil && persisted[f]:
				what = f.Name()
			case name == "Mailbox" && f != nil && f.Name() == "name":
				what = "mailbox.name"
			default:
				okG = false
			}
		}
		r.Check(okG && what != "", "C10/CODEC", cons, p.Pos(fn.Pos()), name+"() returns persisted "+what, name+"() does not return a persisted field: the value is not what was written to the index")
	}
}

// c10LoadErrors: a failure to open or decode the index must surface as an error. If it is
// swallowed the mailbox reads as empty, and the next delivery rewrites the index from that
// empty list: everything stored before is lost.
func (c *Ctx) c10LoadErrors(readIndex *ssa.Function) {
	r, p := c.R, c.P
	r.Rule("C10/LOAD/errors", "in readIndex (and its helpers) no return reachable on the error edge of os.Open/os.OpenFile of the index or of gob Decode reports success, except behind an explicit not-exist / io.EOF test of that error")
	var fns []*ssa.Function
	for fn := range p.SyncReach(readIndex) {
		if eng.FuncPkgPath(fn) == eng.Mod+"/"+fileRel {
			fns = append(fns, fn)
		}
	}
	sortFuncs(fns)
	n := c.errNotSwallowed("C10/LOAD/errors", fns, func(name string) bool {
		switch name {
		case "os.Open", "os.OpenFile", "(*encoding/gob.Decoder).Decode":
			return true
		}
		return false
	}, true, "an unreadable index is taken for an empty mailbox and the next write replaces it")
	r.Floor("C10/LOAD/errors", "open/decode calls on the index load path", n, 1)
}

// errNotSwallowed checks, for every call in fns selected by pick, that no return reachable on
// the call's error edge reports success. With allowExcuse, paths behind an explicit
// `err == X` / os.IsNotExist(err) / errors.Is(err, X) test are exempt. It returns the number
// of calls examined.
func (c *Ctx) errNotSwallowed(rule string, fns []*ssa.Function, pick func(name string) bool, allowExcuse bool, consequence string) int {
	return c.errNotSwallowedCalls(rule, fns, func(call *ssa.Call) (string, bool) {
		name := eng.CalleeName(call.Common())
		return name, pick(name)
	}, allowExcuse, consequence)
}

// errNotSwallowedCalls is errNotSwallowed with the selection made on the call itself.
func (c *Ctx) errNotSwallowedCalls(rule string, fns []*ssa.Function, pickCall func(*ssa.Call) (string, bool), allowExcuse bool, consequence string) int {
	return c.errNotSwallowedCallsX(rule, fns, pickCall, allowExcuse, consequence, nil)
}

// errNotSwallowedCallsX additionally rejects, on the failure edge, any return for which
// misreport gives a reason (e.g. the failure handed to the caller as a verdict the caller
// treats as harmless).
func (c *Ctx) errNotSwallowedCallsX(rule string, fns []*ssa.Function, pickCall func(*ssa.Call) (string, bool), allowExcuse bool, consequence string, misreport func(ret *ssa.Return) string) int {
	r, p := c.R, c.P
	n := 0
	ord := map[string]int{}
	for _, fn := range fns {
		fn := fn
		eng.EachInstr(fn, func(in ssa.Instruction) {
			call, ok := in.(*ssa.Call)
			if !ok {
				return
			}
			name, sel := pickCall(call)
			if !sel {
				return
			}
			var errV ssa.Value = call
			if tup, isT := call.Type().(*types.Tuple); isT {
				errV = nil
				if call.Referrers() != nil {
					for _, ref := range *call.Referrers() {
						if e, ok := ref.(*ssa.Extract); ok && e.Index == tup.Len()-1 {
							errV = e
						}
					}
				}
			}
			n++
			short := name[strings.LastIndex(name, ".")+1:]
			cons := siteCons(p, call, ord, "error-of:"+short)
			if errV == nil {
				r.Bad(rule, cons, p.InstrPos(call), "the error result is discarded")
				return
			}
			okMsg, badAt, badMsg := c.errFate(fn, errV, allowExcuse, misreport, short, call, consequence, 0)
			if okMsg != "" {
				r.Ok(rule, cons, p.InstrPos(call), "%s", okMsg)
			} else {
				r.Bad(rule, cons, p.InstrPos(badAt), "%s", badMsg)
			}
		})
	}
	return n
}

// errFate decides what becomes of the error value errV inside fn: "" and a site when some
// return on its non-nil edge can report success (or misreports it), otherwise a description of
// why it is safe. origin is the call whose failure is being followed (for the messages).
func (c *Ctx) errFate(fn *ssa.Function, errV ssa.Value, allowExcuse bool, misreport func(ret *ssa.Return) string, short string, origin ssa.Instruction, consequence string, depth int) (okMsg string, badAt ssa.Instruction, badMsg string) {
	p := c.P
	aliases := append(eng.ValueAliases(errV), errV)
	isErr := func(v ssa.Value) bool {
		for _, a := range aliases {
			if v == a {
				return true
			}
		}
		return false
	}
	excuse := func(b *ssa.BasicBlock, k int) bool {
		if !allowExcuse {
			return false
		}
		if rel, ok := eng.EdgeRel(b, k); ok && rel.Op == token.EQL && (isErr(rel.X) || isErr(rel.Y)) && !eng.IsNilConst(rel.X) && !eng.IsNilConst(rel.Y) {
			return true
		}
		if v, pol, ok := eng.CondTruth(b, k); ok && pol {
			if cc, ok := v.(*ssa.Call); ok {
				switch eng.CalleeName(cc.Common()) {
				case "os.IsNotExist", "errors.Is":
					return len(cc.Call.Args) > 0 && isErr(cc.Call.Args[0])
				}
			}
		}
		return false
	}
	var starts []*ssa.BasicBlock
	startPred := map[*ssa.BasicBlock]*ssa.BasicBlock{}
	for _, b := range fn.Blocks {
		for k := 0; k < len(b.Succs) && len(b.Succs) == 2; k++ {
			rel, ok := eng.EdgeRel(b, k)
			if !ok || rel.Op != token.NEQ {
				continue
			}
			x, y := rel.X, rel.Y
			if eng.IsNilConst(x) {
				x, y = y, x
			}
			if eng.IsNilConst(y) && isErr(x) {
				starts = append(starts, b.Succs[k])
				startPred[b.Succs[k]] = b
			}
		}
	}
	// a chained error variable (`err = a(); if err == nil { err = b() }; if err != nil {…}`):
	// the failure edge of a() enters a block whose φ takes a()'s error from that edge;
	// a test of that φ in the same block has only its non-nil outcome on this path
	phiEdgeOK := func(b *ssa.BasicBlock, k int) bool {
		pred, isStart := startPred[b]
		if !isStart || len(b.Succs) != 2 {
			return true
		}
		rel, ok := eng.EdgeRel(b, k)
		if !ok || (rel.Op != token.NEQ && rel.Op != token.EQL) {
			return true
		}
		x, y := rel.X, rel.Y
		if eng.IsNilConst(x) {
			x, y = y, x
		}
		// the same with the variable in a cell (a named result): the load tested here reads what
		// the failure edge's block left in the cell, when nothing in this block stores before it
		if ld, isLd := x.(*ssa.UnOp); isLd && ld.Op == token.MUL && eng.IsNilConst(y) && ld.Block() == b {
			if cell, isCell := ld.X.(*ssa.Alloc); isCell {
				storedHere := false
				for _, in := range b.Instrs {
					if in == ssa.Instruction(ld) {
						break
					}
					if st, isSt := in.(*ssa.Store); isSt && st.Addr == ssa.Value(cell) {
						storedHere = true
					}
				}
				if !storedHere {
					var held ssa.Value
					for pb, hops := pred, 0; pb != nil && hops < 6 && held == nil; hops++ {
						for i := len(pb.Instrs) - 1; i >= 0; i-- {
							if st, isSt := pb.Instrs[i].(*ssa.Store); isSt && st.Addr == ssa.Value(cell) {
								held = st.Val
								break
							}
						}
						if held != nil || len(pb.Preds) != 1 {
							break
						}
						pb = pb.Preds[0]
					}
					if held != nil && (isErr(held) || isErr(eng.ResolveLocalLoad(held))) {
						return rel.Op == token.NEQ
					}
				}
			}
		}
		ph, isPhi := x.(*ssa.Phi)
		if !eng.IsNilConst(y) || !isPhi || ph.Block() != b {
			return true
		}
		for i, pb := range b.Preds {
			if pb == pred && i < len(ph.Edges) && isErr(ph.Edges[i]) {
				return rel.Op == token.NEQ
			}
		}
		return true
	}
	// lenient mode (handlers whose not-found and failure answers are decided path-sensitively by
	// another rule): a branch whose condition this search cannot interpret — a φ (the && / ||
	// of a tagless switch), the verdict of a helper that was given the error, or a nil test of
	// the value that came with the error — is not walked through; only plainly wrong code (the
	// failure branch emptied, the error dropped) is reported here
	opaque := func(b *ssa.BasicBlock) bool {
		if !c.errLenient || len(b.Succs) != 2 {
			return false
		}
		iff := eng.IfOf(b)
		if iff == nil {
			return false
		}
		var leaves []ssa.Value
		var walkCond func(v ssa.Value, d int)
		walkCond = func(v ssa.Value, d int) {
			if d > 4 {
				return
			}
			switch x := v.(type) {
			case *ssa.BinOp:
				walkCond(x.X, d+1)
				walkCond(x.Y, d+1)
			case *ssa.UnOp:
				if x.Op == token.NOT {
					walkCond(x.X, d+1)
					return
				}
				leaves = append(leaves, v)
			default:
				leaves = append(leaves, v)
			}
		}
		walkCond(iff.Cond, 0)
		for _, lv := range leaves {
			switch x := lv.(type) {
			case *ssa.Phi:
				if isBool(x.Type()) {
					return true
				}
			case *ssa.Call:
				for _, a := range x.Call.Args {
					if isErr(a) {
						return true
					}
				}
			case *ssa.Extract:
				if ev, ok := errV.(*ssa.Extract); ok && x.Tuple == ev.Tuple && x.Index != ev.Index {
					return true
				}
				if hc, ok := x.Tuple.(*ssa.Call); ok {
					for _, a := range hc.Call.Args {
						if isErr(a) {
							return true
						}
					}
				}
			}
		}
		return false
	}
	if len(starts) == 0 {
		if errV.Referrers() != nil {
			for _, ref := range *errV.Referrers() {
				if _, isRet := ref.(*ssa.Return); isRet {
					return "the error is returned to the caller", nil, ""
				}
			}
		}
		// handed to a helper of the module whose result this function returns: the helper
		// decides what the caller is told
		if depth < 3 {
			if okMsg, badAt, badMsg, found := c.errFateViaHelper(fn, isErr, allowExcuse, misreport, short, origin, consequence, depth); found {
				return okMsg, badAt, badMsg
			}
		}
		if c.errLenient && errV.Referrers() != nil {
			for _, ref := range *errV.Referrers() {
				if hc, ok := ref.(*ssa.Call); ok {
					if g := eng.StaticCallee(hc.Common()); g != nil && eng.InModule(g) {
						return "the error is classified by " + shortFn(g) + "; what the handler answers in each case is decided by the not-found rule", nil, ""
					}
				}
			}
		}
		return "", origin, fmt.Sprintf("the error is never tested against nil: a failed %s is treated like a success", short)
	}
	succRet := func(in ssa.Instruction) bool {
		ret, ok := in.(*ssa.Return)
		if !ok || eng.IsRecoverBlock(ret.Block()) {
			return false
		}
		res := eng.ReturnResults(ret)
		if len(res) == 0 {
			return true
		}
		e := res[len(res)-1]
		if isErr(e) || isErr(eng.ResolveLocalLoad(e)) {
			return false // hands back the very error whose failure edge this is
		}
		// …or hands it to a function or function literal that returns what it was given
		// (return abandon(err), with abandon := func(cause error) (string, error) { …; return "", cause })
		if hc, ri := eng.CallAndIndex(e); hc != nil && !hc.Call.IsInvoke() {
			g := eng.StaticCallee(hc.Common())
			if g == nil {
				if fv, _, ok := eng.FuncValueOf(eng.ResolveLocalLoad(hc.Call.Value)); ok {
					g = fv
				}
			}
			if g != nil && len(g.Blocks) > 0 && len(hc.Call.Args) == len(g.Params) {
				passes := true
				n := 0
				eng.EachInstr(g, func(gi ssa.Instruction) {
					gr, isRet := gi.(*ssa.Return)
					if !isRet || gi.Parent() != g {
						return
					}
					n++
					gres := eng.ReturnResults(gr)
					if ri >= len(gres) {
						passes = false
						return
					}
					gv := eng.StripConv(gres[ri])
					if definitelyNonNilErr(gv) {
						return
					}
					prm, isP := gv.(*ssa.Parameter)
					if !isP {
						passes = false
						return
					}
					pi := eng.ParamIndex(prm)
					if pi < 0 || pi >= len(hc.Call.Args) || !(isErr(hc.Call.Args[pi]) || isErr(eng.ResolveLocalLoad(hc.Call.Args[pi]))) {
						passes = false
					}
				})
				if passes && n > 0 {
					return false
				}
			}
		}
		// a local (named result) that nothing but this function writes, tested non-nil on an
		// edge that dominates the return, and not written again under that edge
		if ld, isLd := e.(*ssa.UnOp); isLd && ld.Op == token.MUL {
			if cell, isCell := ld.X.(*ssa.Alloc); isCell && !eng.CellEscapes(cell) {
				for _, b := range fn.Blocks {
					for k := 0; k < len(b.Succs) && len(b.Succs) == 2; k++ {
						rel, ok := eng.EdgeRel(b, k)
						if !ok || rel.Op != token.NEQ || !eng.EdgeDominates(b, k, ret.Block()) {
							continue
						}
						x, y := rel.X, rel.Y
						if eng.IsNilConst(x) {
							x, y = y, x
						}
						tl, isTl := x.(*ssa.UnOp)
						if !eng.IsNilConst(y) || !isTl || tl.X != ssa.Value(cell) {
							continue
						}
						rewritten := false
						for _, blk := range fn.Blocks {
							if !eng.EdgeDominates(b, k, blk) {
								continue
							}
							for _, in2 := range blk.Instrs {
								if st, isSt := in2.(*ssa.Store); isSt && st.Addr == ssa.Value(cell) {
									if sl, isL := st.Val.(*ssa.UnOp); isL && sl.X == ssa.Value(cell) {
										continue // *c = *c emitted for `return namedResult`
									}
									rewritten = true
								}
							}
						}
						if !rewritten {
							return false
						}
					}
				}
			}
		}
		return !(definitelyNonNilErr(e) || eng.KnownNonNil(e, ret.Block()))
	}
	for _, st := range starts {
		if bad := (&eng.Search{Target: succRet, Edge: func(b *ssa.BasicBlock, k int) bool { return !excuse(b, k) && phiEdgeOK(b, k) && !opaque(b) }}).FromBlockStart(st); bad != nil {
			return "", bad, fmt.Sprintf("when %s at %s fails, %s can still report success here: %s", short, p.InstrPos(origin), shortFn(fn), consequence)
		}
		if misreport != nil {
			why := ""
			mis := func(in ssa.Instruction) bool {
				ret, ok := in.(*ssa.Return)
				if !ok || eng.IsRecoverBlock(ret.Block()) {
					return false
				}
				if w := misreport(ret); w != "" {
					why = w
					return true
				}
				return false
			}
			if bad := (&eng.Search{Target: mis, Edge: func(b *ssa.BasicBlock, k int) bool { return !excuse(b, k) && phiEdgeOK(b, k) && !opaque(b) }}).FromBlockStart(st); bad != nil {
				return "", bad, fmt.Sprintf("when %s at %s fails, %s %s: %s", short, p.InstrPos(origin), shortFn(fn), why, consequence)
			}
		}
	}
	return "every return on the failure edge reports an error", nil, ""
}

// errFateViaHelper: the error (or a variable that holds it on some path) is an argument of a
// call to a module function whose result fn returns; the verdict is then the helper's.
func (c *Ctx) errFateViaHelper(fn *ssa.Function, isErr func(ssa.Value) bool, allowExcuse bool, misreport func(ret *ssa.Return) string, short string, origin ssa.Instruction, consequence string, depth int) (okMsg string, badAt ssa.Instruction, badMsg string, found bool) {
	carries := func(v ssa.Value) bool {
		if isErr(v) {
			return true
		}
		if ph, ok := v.(*ssa.Phi); ok {
			for _, e := range ph.Edges {
				if isErr(e) {
					return true
				}
			}
		}
		return false
	}
	var hit *ssa.Call
	var prm *ssa.Parameter
	eng.EachInstr(fn, func(in ssa.Instruction) {
		hc, ok := in.(*ssa.Call)
		if !ok || hit != nil {
			return
		}
		g := eng.StaticCallee(hc.Common())
		if g == nil || !eng.InModule(g) || len(g.Blocks) == 0 {
			return
		}
		for i, a := range hc.Call.Args {
			if carries(a) && i < len(g.Params) {
				// fn must return what the helper returns
				returned := false
				eng.EachInstr(fn, func(x ssa.Instruction) {
					ret, isRet := x.(*ssa.Return)
					if !isRet {
						return
					}
					for _, rv := range eng.ReturnResults(ret) {
						if rv == ssa.Value(hc) {
							returned = true
						}
						if ex, isEx := rv.(*ssa.Extract); isEx && ex.Tuple == ssa.Value(hc) {
							returned = true
						}
					}
				})
				if returned {
					hit, prm = hc, g.Params[i]
				}
			}
		}
	})
	if hit == nil {
		return "", nil, "", false
	}
	g := eng.StaticCallee(hit.Common())
	okMsg, badAt, badMsg = c.errFate(g, prm, allowExcuse, misreport, short, origin, consequence, depth+1)
	if okMsg != "" {
		okMsg = "handed to " + shortFn(g) + ", whose verdict the function returns: " + okMsg
	}
	return okMsg, badAt, badMsg, true
}

func (c *Ctx) c10NoMemory(pm *pairModel, storeT, mboxT *types.Named, readIndex *ssa.Function, fLoaded *types.Var) {
	r, p := c.R, c.P
	// Store field types
	st := storeT.Underlying().(*types.Struct)
	var bad []string
	for i := 0; i < st.NumFields(); i++ {
		f := st.Field(i)
		if typeMentions(f.Type(), func(n *types.Named) bool {
			return n.Obj().Pkg() != nil && n.Obj().Pkg().Path() == eng.Mod+"/"+fileRel && (n.Obj().Name() == "mbox" || n.Obj().Name() == "Message")
		}, 0) {
			bad = append(bad, f.Name()+" "+eng.ShortType(f.Type()))
		}
		if _, isMap := f.Type().Underlying().(*types.Map); isMap {
			bad = append(bad, f.Name()+" (map)")
		}
		// containers that hold arbitrary values: a sync.Map (but not a sync.Pool of scratch
		// buffers, which C09/POOL judges), an interface value, a slice of interfaces
		if n, isN := f.Type().(*types.Named); isN && n.Obj().Pkg() != nil && n.Obj().Pkg().Path() == "sync" && n.Obj().Name() == "Map" {
			bad = append(bad, f.Name()+" (sync.Map)")
		}
		if pt, isP := f.Type().(*types.Pointer); isP {
			if n, isN := pt.Elem().(*types.Named); isN && n.Obj().Pkg() != nil && n.Obj().Pkg().Path() == "sync" && n.Obj().Name() == "Map" {
				bad = append(bad, f.Name()+" (*sync.Map)")
			}
		}
	}
	if len(bad) > 0 {
		r.Bad("C10/NO-MEMORY-STATE", "file.Store-fields", p.Pos(storeT.Obj().Pos()), "file.Store holds mailbox state in memory (%s): operations can succeed from the cache while the disk disagrees", strings.Join(bad, ", "))
	} else {
		r.Ok("C10/NO-MEMORY-STATE", "file.Store-fields", p.Pos(storeT.Obj().Pos()), "%d fields, none can hold mailboxes or messages", st.NumFields())
	}
	// constructors leave indexLoaded false
	nCtor := 0
	for _, fn := range pkgFuncs(p, fileRel) {
		fn := fn
		eng.EachInstr(fn, func(in ssa.Instruction) {
			al, ok := in.(*ssa.Alloc)
			if !ok {
				return
			}
			pt, ok := al.Type().(*types.Pointer)
			if !ok || !types.Identical(pt.Elem(), mboxT) {
				return
			}
			nCtor++
			preset := false
			for _, ref := range *al.Referrers() {
				if fa, ok := ref.(*ssa.FieldAddr); ok {
					f := eng.FieldOfAddr(fa)
					if eng.SameField(f, fLoaded) || eng.SameField(f, pm.fileMsgs) {
						for _, r2 := range *fa.Referrers() {
							if _, isSt := r2.(*ssa.Store); isSt {
								preset = true
							}
						}
					}
				}
			}
			r.Check(!preset, "C10/NO-MEMORY-STATE", "ctor@"+shortFn(fn), p.InstrPos(in), "mbox is constructed with the index not loaded", "an mbox is constructed with indexLoaded/messages preset: its contents do not come from disk")
			// a mailbox object lives for one operation: the fresh object is handed back to the
			// caller and to nobody else (kept in the store, it would carry one operation's loaded
			// index — and its lazily loading readers — into the next)
			kept := ""
			for _, ref := range *al.Referrers() {
				switch y := ref.(type) {
				case *ssa.Store:
					if y.Val == ssa.Value(al) {
						if _, local := y.Addr.(*ssa.Alloc); !local {
							kept = "stored at " + p.InstrPos(y)
						}
					}
				case *ssa.MakeInterface:
					if y.Referrers() != nil {
						for _, r2 := range *y.Referrers() {
							if cc := eng.CallOf(r2); cc != nil {
								kept = "handed to " + eng.CalleeName(cc) + " at " + p.InstrPos(r2)
							}
							if st2, isSt := r2.(*ssa.Store); isSt {
								if _, local := st2.Addr.(*ssa.Alloc); !local {
									kept = "stored at " + p.InstrPos(st2)
								}
							}
						}
					}
				case *ssa.Call:
					for _, a := range y.Call.Args {
						if a == ssa.Value(al) && eng.StaticCallee(y.Common()) == nil {
							kept = "handed to " + eng.CalleeName(y.Common()) + " at " + p.InstrPos(y)
						}
					}
				}
			}
			r.Check(kept == "", "C10/NO-MEMORY-STATE", "ctor-fresh@"+shortFn(fn), p.InstrPos(in), "the constructed mbox is only handed back to the caller", "the constructed mbox is "+kept+": a mailbox object kept across operations serves later calls from memory (and lets readers that hold only the read lock load its index at the same time)")
		})
	}
	r.Floor("C10/NO-MEMORY-STATE", "mbox constructors", nCtor, 1)
	// guard before reads
	loadedTrueEdge := func(b *ssa.BasicBlock, k int) bool {
		v, pol, ok := eng.CondTruth(b, k)
		return ok && pol && eng.SameField(eng.LoadedField(v), fLoaded)
	}
	var isRead eng.Pred
	guarded := map[*ssa.Function]bool{}
	accesses := map[*ssa.Function][]ssa.Instruction{}
	// loaders: functions every one of whose paths to a return loads the index (calls
	// readIndex or another loader), bypassing only on the indexLoaded==true edge
	loader := map[*ssa.Function]bool{readIndex: true}
	isLoad := func(in ssa.Instruction) bool {
		call, ok := in.(*ssa.Call)
		if !ok {
			return false
		}
		g := eng.StaticCallee(call.Common())
		return g != nil && loader[g]
	}
	for changed := true; changed; {
		changed = false
		for _, fn := range pkgFuncs(p, fileRel) {
			if loader[fn] || len(fn.Blocks) == 0 {
				continue
			}
			has := false
			eng.EachInstr(fn, func(in ssa.Instruction) {
				if isLoad(in) {
					has = true
				}
			})
			if !has {
				continue
			}
			if (&eng.Search{Target: eng.IsReturn, Avoid: isLoad,
				Edge: func(b *ssa.BasicBlock, k int) bool { return !loadedTrueEdge(b, k) }}).FromEntry(fn) == nil {
				loader[fn] = true
				changed = true
			}
		}
	}
	isRead = isLoad
	nLocal := 0 // accesses in function literals that load the index themselves
	for _, fn := range pkgFuncs(p, fileRel) {
		if pm.onLoadPath(fn, readIndex) {
			continue
		}
		fn := fn
		eng.EachInstr(fn, func(in ssa.Instruction) {
			if fa, ok := in.(*ssa.FieldAddr); ok && eng.SameField(eng.FieldOfAddr(fa), pm.fileMsgs) {
				if _, fresh := fa.X.(*ssa.Alloc); !fresh {
					// an access inside a function literal is attributed to the instruction
					// of the enclosing function that creates the literal
					owner, at := fn, ssa.Instruction(in)
					// … unless the literal loads the index itself before the access (a critical
					// section handed to a lock gate: mb.update(func() error { if !mb.indexLoaded { readIndex } … }))
					if fn.Parent() != nil {
						this := ssa.Instruction(in)
						if (&eng.Search{Target: func(x ssa.Instruction) bool { return x == this }, Avoid: isRead,
							Edge: func(b *ssa.BasicBlock, k int) bool { return !loadedTrueEdge(b, k) }}).FromEntry(fn) == nil {
							nLocal++
							r.Ok("C10/NO-MEMORY-STATE", "reads-messages@"+shortFn(fn), p.InstrPos(in), "the function literal loads the index itself before it touches mbox.messages")
							return
						}
					}
					for owner.Parent() != nil {
						var mk ssa.Instruction
						eng.EachInstr(owner.Parent(), func(x ssa.Instruction) {
							if mc, ok := x.(*ssa.MakeClosure); ok && mc.Fn == ssa.Value(owner) {
								mk = x
							}
						})
						if mk == nil {
							break
						}
						owner, at = owner.Parent(), mk
					}
					accesses[owner] = append(accesses[owner], at)
				}
			}
		})
	}
	readers := len(accesses) + nLocal
	// fixpoint: a function is guarded if every path from entry to an access passes
	// readIndex or a call of an already guarded function (bypass only via indexLoaded==true)
	for changed := true; changed; {
		changed = false
		for fn, accs := range accesses {
			if guarded[fn] {
				continue
			}
			loads := func(in ssa.Instruction) bool {
				if isRead(in) {
					return true
				}
				call, ok := in.(*ssa.Call)
				if !ok {
					return false
				}
				g := eng.StaticCallee(call.Common())
				return g != nil && guarded[g]
			}
			okG := true
			for _, ld := range accs {
				ld := ld
				if (&eng.Search{Target: func(in ssa.Instruction) bool { return in == ld }, Avoid: loads,
					Edge: func(b *ssa.BasicBlock, k int) bool { return !loadedTrueEdge(b, k) }}).FromEntry(fn) != nil {
					okG = false
				}
			}
			if okG {
				guarded[fn] = true
				changed = true
			}
		}
	}
	// an unguarded accessor is fine if every call of it happens after the index was loaded
	var ctxOK func(fn *ssa.Function, depth int) (bool, string)
	ctxOK = func(fn *ssa.Function, depth int) (bool, string) {
		if depth > 4 {
			return false, "call chain too deep"
		}
		callers := p.CallersOf(fn)
		if len(callers) == 0 {
			return false, "no callers"
		}
		for _, e := range callers {
			C := e.Caller.Func
			if eng.FuncPkgPath(C) != eng.Mod+"/"+fileRel {
				return false, "called from " + shortFn(C) + " outside the package"
			}
			site := e.Site.(ssa.Instruction)
			loads := func(in ssa.Instruction) bool {
				if isRead(in) {
					return true
				}
				call, ok := in.(*ssa.Call)
				if !ok || in == site {
					return false
				}
				g := eng.StaticCallee(call.Common())
				return g != nil && guarded[g]
			}
			hit := (&eng.Search{Target: func(in ssa.Instruction) bool { return in == site }, Avoid: loads,
				Edge: func(b *ssa.BasicBlock, k int) bool { return !loadedTrueEdge(b, k) }}).FromEntry(C)
			if hit == nil {
				continue
			}
			if ok, why := ctxOK(C, depth+1); !ok {
				return false, "caller " + shortFn(C) + " (" + why + ")"
			}
		}
		return true, ""
	}
	var names []*ssa.Function
	for fn := range accesses {
		names = append(names, fn)
	}
	sort.Slice(names, func(i, j int) bool { return names[i].String() < names[j].String() })
	for _, fn := range names {
		cons := "reads-messages@" + shortFn(fn)
		if guarded[fn] {
			r.Ok("C10/NO-MEMORY-STATE", cons, p.Pos(fn.Pos()), "every access of mbox.messages is preceded by `!indexLoaded → readIndex()` (directly or through a callee that does it)")
			continue
		}
		if ok, why := ctxOK(fn, 0); ok {
			r.Ok("C10/NO-MEMORY-STATE", cons, p.Pos(fn.Pos()), "unguarded itself, but every call chain loads the index first")
		} else {
			r.Bad("C10/NO-MEMORY-STATE", cons, p.Pos(fn.Pos()), "mbox.messages is used without the index having been loaded (%s): on a reopened store the operation sees an empty mailbox and rewrites the index from it", why)
		}
	}
	r.Floor("C10/NO-MEMORY-STATE", "functions accessing mbox.messages", readers, 1)
}

func typeMentions(t types.Type, pred func(*types.Named) bool, depth int) bool {
	if depth > 6 {
		return false
	}
	switch x := t.(type) {
	case *types.Named:
		if pred(x) {
			return true
		}
		if x.Obj().Pkg() != nil && !strings.HasPrefix(x.Obj().Pkg().Path(), eng.Mod) {
			return false
		}
		return typeMentions(x.Underlying(), pred, depth+1)
	case *types.Pointer:
		return typeMentions(x.Elem(), pred, depth+1)
	case *types.Slice:
		return typeMentions(x.Elem(), pred, depth+1)
	case *types.Array:
		return typeMentions(x.Elem(), pred, depth+1)
	case *types.Map:
		return typeMentions(x.Key(), pred, depth+1) || typeMentions(x.Elem(), pred, depth+1)
	case *types.Chan:
		return typeMentions(x.Elem(), pred, depth+1)
	case *types.Struct:
		for i := 0; i < x.NumFields(); i++ {
			if typeMentions(x.Field(i).Type(), pred, depth+1) {
				return true
			}
		}
	}
	return false
}

// exprString renders an SSA value as an expression tree over leaves; the hash leaf is
// rendered as "hash" in both constructors.
func exprString(v ssa.Value, hash ssa.Value, depth int) string {
	if depth > 8 {
		return "…"
	}
	if v == hash {
		return "hash"
	}
	switch x := v.(type) {
	case *ssa.Const:
		return x.Value.String()
	case *ssa.Parameter:
		return "param:" + x.Name()
	case *ssa.Call:
		var args []string
		for _, a := range x.Call.Args {
			args = append(args, exprString(a, hash, depth+1))
		}
		return eng.CalleeName(x.Common()) + "(" + strings.Join(args, ",") + ")"
	case *ssa.Slice:
		lo, hi := "", ""
		if x.Low != nil {
			lo = exprString(x.Low, hash, depth+1)
		}
		if x.High != nil {
			hi = exprString(x.High, hash, depth+1)
		}
		// variadic argument packs: render the stored elements
		if al, ok := x.X.(*ssa.Alloc); ok {
			elems := map[int64]string{}
			for _, ref := range *al.Referrers() {
				if ia, ok := ref.(*ssa.IndexAddr); ok {
					k, _ := eng.ConstInt(ia.Index)
					for _, r2 := range *ia.Referrers() {
						if st, ok := r2.(*ssa.Store); ok {
							elems[k] = exprString(st.Val, hash, depth+1)
						}
					}
				}
			}
			var parts []string
			for i := int64(0); i < int64(len(elems)); i++ {
				parts = append(parts, elems[i])
			}
			return "[" + strings.Join(parts, ",") + "]"
		}
		return exprString(x.X, hash, depth+1) + "[" + lo + ":" + hi + "]"
	case *ssa.UnOp:
		if x.Op == token.MUL {
			if f := eng.AddrField(x.X); f != nil {
				return "." + f.Name()
			}
		}
		return x.Op.String() + exprString(x.X, hash, depth+1)
	case *ssa.FieldAddr:
		return "&." + eng.FieldOfAddr(x).Name()
	case *ssa.BinOp:
		return "(" + exprString(x.X, hash, depth+1) + x.Op.String() + exprString(x.Y, hash, depth+1) + ")"
	case *ssa.MakeInterface:
		return exprString(x.X, hash, depth+1)
	}
	return fmt.Sprintf("%T", v)
}

func (c *Ctx) c10Paths() {
	r, p := c.R, c.P
	byName := p.Method(fileRel, "Store", "mbox")
	byHash := p.Method(fileRel, "Store", "mboxFromHash")
	mboxT := p.Named(fileRel, "mbox")
	if byName == nil || byHash == nil || mboxT == nil {
		return
	}
	// a nested field is reported under the name of the mbox anchor that resolves to it
	anchorName := func(f *types.Var) string {
		for _, nm := range []string{"path", "indexPath", "dirName"} {
			if a := p.OptField(fileRel, "mbox", nm); a != nil && eng.SameField(a, f) {
				return nm
			}
		}
		return f.Name()
	}
	fields := func(fn *ssa.Function, hash ssa.Value) map[string]string {
		out := map[string]string{}
		eng.EachInstr(fn, func(in ssa.Instruction) {
			st, ok := in.(*ssa.Store)
			if !ok {
				return
			}
			fa, ok := st.Addr.(*ssa.FieldAddr)
			if !ok {
				return
			}
			if al, ok := fa.X.(*ssa.Alloc); ok {
				if pt, ok := al.Type().(*types.Pointer); ok && types.Identical(pt.Elem(), mboxT) {
					out[eng.FieldOfAddr(fa).Name()] = exprString(st.Val, hash, 0)
					// a carrier record set as a whole (idx: mboxIndex{path: …}): its fields, under
					// the name of the anchor they resolve to
					if ld, isLd := st.Val.(*ssa.UnOp); isLd {
						if cal, isAl := ld.X.(*ssa.Alloc); isAl && cal.Referrers() != nil {
							for _, cr := range *cal.Referrers() {
								cfa, isFA := cr.(*ssa.FieldAddr)
								if !isFA || cfa.Referrers() == nil {
									continue
								}
								for _, cs := range *cfa.Referrers() {
									if cst, isSt := cs.(*ssa.Store); isSt && cst.Addr == ssa.Value(cfa) {
										out[anchorName(eng.FieldOfAddr(cfa))] = exprString(cst.Val, hash, 0)
									}
								}
							}
						}
					}
				}
			}
			// …or field by field (&(&mb.idx).path)
			if ofa, ok := fa.X.(*ssa.FieldAddr); ok {
				if al, ok := ofa.X.(*ssa.Alloc); ok {
					if pt, ok := al.Type().(*types.Pointer); ok && types.Identical(pt.Elem(), mboxT) {
						out[anchorName(eng.FieldOfAddr(fa))] = exprString(st.Val, hash, 0)
					}
				}
			}
		})
		return out
	}
	// hash leaf: in mbox() the result of HashMailboxName; in mboxFromHash the string parameter
	var hashA ssa.Value
	eng.EachInstr(byName, func(in ssa.Instruction) {
		if call, ok := in.(*ssa.Call); ok {
			if g := eng.StaticCallee(call.Common()); g != nil && g.Name() == "HashMailboxName" {
				hashA = call
			}
		}
	})
	var hashB ssa.Value
	for _, prm := range byHash.Params {
		if isString(prm.Type()) {
			hashB = prm
		}
	}
	if hashA == nil || hashB == nil {
		r.Undecided("C10/PATH/agree", "constructors", p.Pos(byName.Pos()), "cannot identify the hash value in both constructors")
		return
	}
	a, b := fields(byName, hashA), fields(byHash, hashB)
	if len(a) == 0 && len(b) == 0 {
		// both constructors may delegate to one shared constructor: newMbox(name, hash)
		soleDeleg := func(fn *ssa.Function) *ssa.Call {
			var d *ssa.Call
			for _, ret := range successReturns(fn) {
				res := eng.ReturnResults(ret)
				if len(res) != 1 {
					return nil
				}
				call, ok := res[0].(*ssa.Call)
				if !ok || d != nil && d != call {
					return nil
				}
				d = call
			}
			return d
		}
		da, db := soleDeleg(byName), soleDeleg(byHash)
		if da != nil && db != nil {
			g := eng.StaticCallee(da.Common())
			if g != nil && g == eng.StaticCallee(db.Common()) && eng.FuncPkgPath(g) == eng.FuncPkgPath(byName) && len(g.Blocks) > 0 {
				// the parameter of g that receives the hash in both
				j := -1
				for i := range da.Call.Args {
					if i < len(db.Call.Args) && da.Call.Args[i] == hashA && db.Call.Args[i] == hashB {
						j = i
					}
				}
				if j >= 0 && j < len(g.Params) {
					shared := fields(g, g.Params[j])
					for _, f := range []string{"path", "indexPath", "dirName", "RWMutex"} {
						if shared[f] == "" {
							r.Bad("C10/PATH/agree", "mbox."+f, p.Pos(g.Pos()), "field is not set by the shared constructor %s", shortFn(g))
						} else {
							r.Ok("C10/PATH/agree", "mbox."+f, p.Pos(g.Pos()), "both constructors return %s(…, hash): both = %s", shortFn(g), shared[f])
						}
					}
					return
				}
			}
		}
	}
	if len(a) == 0 {
		// the by-name constructor may delegate: return mboxFromHash(HashMailboxName(name))
		var deleg *ssa.Call
		eng.EachInstr(byName, func(in ssa.Instruction) {
			if call, ok := in.(*ssa.Call); ok && eng.StaticCallee(call.Common()) == byHash {
				deleg = call
			}
		})
		i := eng.ParamIndex(hashB)
		allRet := deleg != nil && i >= 0 && i < len(deleg.Call.Args) && deleg.Call.Args[i] == hashA
		if allRet {
			for _, ret := range successReturns(byName) {
				if len(eng.ReturnResults(ret)) != 1 || eng.ReturnResults(ret)[0] != ssa.Value(deleg) {
					allRet = false
				}
			}
		}
		if allRet {
			// and must not overwrite the location fields afterwards
			eng.EachInstr(byName, func(in ssa.Instruction) {
				if st, ok := in.(*ssa.Store); ok {
					if fa, ok := st.Addr.(*ssa.FieldAddr); ok {
						switch eng.FieldOfAddr(fa).Name() {
						case "path", "indexPath", "dirName", "RWMutex":
							allRet = false
						}
					}
				}
			})
		}
		if allRet {
			for _, f := range []string{"path", "indexPath", "dirName", "RWMutex"} {
				if b[f] == "" {
					r.Bad("C10/PATH/agree", "mbox."+f, p.Pos(byHash.Pos()), "field is not set by the by-hash constructor")
				} else {
					r.Ok("C10/PATH/agree", "mbox."+f, p.Pos(byHash.Pos()), "by-name constructor returns mboxFromHash(HashMailboxName(name)): both = %s", b[f])
				}
			}
			return
		}
	}
	for _, f := range []string{"path", "indexPath", "dirName", "RWMutex"} {
		cons := "mbox." + f
		switch {
		case a[f] == "" || b[f] == "":
			r.Bad("C10/PATH/agree", cons, p.Pos(byHash.Pos()), "field is not set by both constructors (by name: %q, by hash: %q)", a[f], b[f])
		case a[f] != b[f]:
			r.Bad("C10/PATH/agree", cons, p.Pos(byHash.Pos()), "the two constructors disagree: by name %s, by hash %s — after a restart VisitMailboxes (retention, size accounting) reads or locks a different place than delivery wrote", a[f], b[f])
		default:
			r.Ok("C10/PATH/agree", cons, p.Pos(byHash.Pos()), "both = %s", a[f])
		}
	}
}

// c10LiteralPath: the configured storage path is a directory name, not a pattern. Delivery
// builds its paths by joining onto it; rediscovery after a restart must read that same literal
// directory. A call that interprets its argument as a pattern (Glob, Match, a regular
// expression) and is given a string built from the configured path finds nothing — or
// something else — when the path contains a pattern character ('[', '*', '?', '\\'), so a
// restarted store reports no mailboxes although all mail is on disk.
func (c *Ctx) c10LiteralPath() {
	r, p := c.R, c.P
	rule := "C10/DISCOVER/literal-path"
	r.Rule(rule, "in the file store no pattern-interpreting call (filepath.Glob/Match, path.Match, fs.Glob, regexp compile/match) receives a pattern built from the configured storage path (Store.mailPath, mbox.path, mbox.indexPath): rediscovery reads the literal directories delivery wrote")
	sinks := map[string]int{
		"path/filepath.Glob": 0, "path/filepath.Match": 0, "path.Match": 0, "io/fs.Glob": 1,
		"regexp.Compile": 0, "regexp.MustCompile": 0, "regexp.MatchString": 0, "regexp.Match": 0, "regexp.CompilePOSIX": 0, "regexp.MustCompilePOSIX": 0,
	}
	var pathFields []string
	for _, tf := range [][2]string{{"Store", "mailPath"}, {"mbox", "path"}, {"mbox", "indexPath"}} {
		if f := p.OptField(fileRel, tf[0], tf[1]); f != nil {
			pathFields = append(pathFields, "."+f.Name())
		}
	}
	nBad, nFn := 0, 0
	ord := map[string]int{}
	for _, fn := range pkgFuncs(p, fileRel) {
		fn := fn
		nFn++
		eng.EachInstr(fn, func(in ssa.Instruction) {
			cc := eng.CallOf(in)
			if cc == nil {
				return
			}
			name := eng.CalleeName(cc)
			idx, isSink := sinks[name]
			if !isSink || idx >= len(cc.Args) {
				return
			}
			expr := exprString(cc.Args[idx], nil, 0)
			for _, pf := range pathFields {
				if strings.Contains(expr, pf+",") || strings.Contains(expr, pf+")") || strings.Contains(expr, pf+"]") || strings.Contains(expr, pf+"+") || strings.HasSuffix(expr, pf) {
					nBad++
					r.Bad(rule, siteCons(p, in, ord, "pattern"), p.InstrPos(in), "%s is given a pattern built from the configured storage path (%s): with a path that contains '[', '*', '?' or a backslash the pattern no longer names the directories delivery wrote, so %s finds no (or other) mailboxes after a restart while access by name still works", name, expr, shortFn(fn))
					return
				}
			}
		})
	}
	if nBad == 0 {
		r.Ok(rule, "file-store", "", "no pattern-interpreting call in the %d functions of the file store takes the storage path", nFn)
	}
}

// storeErrorsPropagate: in the given functions, an error that the code itself tests is
// reported: on the non-nil edge of every (…, error) call whose error is compared with nil, no
// return reports success — unless the branch is taken only for an explicit not-exist / EOF
// test of that error (the accepted idioms of the file store: a missing index is an empty
// mailbox). Errors the code discards outright (`_ = f.Close()` on a cleanup path) are not
// judged here. A failure branch that was emptied, or that returns nil, makes a failed write
// look like a success: the delivery is acknowledged, the removal confirmed, the index taken for
// written.
func (c *Ctx) storeErrorsPropagate(rule string, fns []*ssa.Function, consequence string) int {
	isErrT := func(t types.Type) bool {
		n, ok := t.(*types.Named)
		return ok && n.Obj().Pkg() == nil && n.Obj().Name() == "error"
	}
	return c.errNotSwallowedCalls(rule, fns, func(call *ssa.Call) (string, bool) {
		sig := call.Call.Signature()
		res := sig.Results()
		if res.Len() == 0 || !isErrT(res.At(res.Len()-1).Type()) {
			return "", false
		}
		// the error value, and whether the function tests it against nil at all
		var errV ssa.Value = call
		if res.Len() > 1 {
			errV = nil
			if call.Referrers() != nil {
				for _, ref := range *call.Referrers() {
					if e, ok := ref.(*ssa.Extract); ok && e.Index == res.Len()-1 {
						errV = e
					}
				}
			}
		}
		if errV == nil {
			return "", false
		}
		vals := append(eng.ValueAliases(errV), errV)
		tested := false
		for _, b := range call.Parent().Blocks {
			for k := 0; k < len(b.Succs) && len(b.Succs) == 2; k++ {
				rel, ok := eng.EdgeRel(b, k)
				if !ok || rel.Op != token.NEQ {
					continue
				}
				x, y := rel.X, rel.Y
				if eng.IsNilConst(x) {
					x, y = y, x
				}
				if !eng.IsNilConst(y) {
					continue
				}
				for _, v := range vals {
					if v == x {
						tested = true
					}
				}
			}
		}
		if !tested {
			// `if err != nil {}` leaves a comparison nothing depends on (go/ssa drops the branch
			// of an empty body): the source tests the error and then does nothing about it
			for _, v := range vals {
				if v.Referrers() == nil {
					continue
				}
				for _, ref := range *v.Referrers() {
					if bo, isB := ref.(*ssa.BinOp); isB && (bo.Op == token.NEQ || bo.Op == token.EQL) && (eng.IsNilConst(bo.X) || eng.IsNilConst(bo.Y)) {
						if bo.Referrers() == nil || len(*bo.Referrers()) == 0 {
							tested = true
						}
					}
				}
			}
		}
		if !tested {
			return "", false
		}
		// a function that cannot return an error (a deferred cleanup closure) can only log it
		fres := call.Parent().Signature.Results()
		if fres.Len() == 0 || !isErrT(fres.At(fres.Len()-1).Type()) {
			return "", false
		}
		name := eng.CalleeName(call.Common())
		if call.Call.IsInvoke() {
			name = call.Call.Method.Name()
		}
		// tabled exception (one symbol, one reason): the file store's cap eviction in newMessage
		// logs a failed removal and goes on with the delivery — the cap is best effort there, the
		// next delivery tries again, and the delivery itself still fails if the index cannot be
		// written
		// (recognised by role, not by name: a call inside a loop of the file store whose
		// condition compares len(mbox.messages) with a bound — the eviction loop)
		if eng.FuncPkgPath(call.Parent()) == eng.Mod+"/"+fileRel {
			if fMsgs := c.P.OptField(fileRel, "mbox", "messages"); fMsgs != nil {
				var conds []*ssa.BasicBlock
				for _, h := range loopHeaders(call.Block()) {
					// the header and the rest of an && / || loop condition: the blocks between the
					// header and the body
					for _, bb := range call.Parent().Blocks {
						if (bb == h || h.Dominates(bb)) && (bb == call.Block() || bb.Dominates(call.Block())) {
							conds = append(conds, bb)
						}
					}
				}
				for _, h := range conds {
					iff := eng.IfOf(h)
					if iff == nil {
						continue
					}
					if rel, ok := eng.CondRel(iff.Cond); ok {
						for _, side := range []ssa.Value{rel.X, rel.Y} {
							if lx := eng.LenOf(eng.StripConv(side)); lx != nil && eng.SameField(eng.LoadedField(lx), fMsgs) {
								return "", false
							}
						}
					}
					// the bound asked of a helper (for mb.atMessageCap() { … })
					if hc, isCall := iff.Cond.(*ssa.Call); isCall {
						if rets, hg := eng.ReturnedValues(hc, 0); hg != nil {
							// a helper that answers `limit > 0 && len(…) >= limit` returns a φ of its conjuncts
							var flat []ssa.Value
							var open func(v ssa.Value, d int)
							open = func(v ssa.Value, d int) {
								if ph, isPhi := v.(*ssa.Phi); isPhi && d < 4 {
									for _, e := range ph.Edges {
										open(e, d+1)
									}
									return
								}
								flat = append(flat, v)
							}
							for _, rv := range rets {
								open(rv, 0)
							}
							for _, rv := range flat {
								if rel, ok := eng.CondRel(rv); ok {
									for _, side := range []ssa.Value{rel.X, rel.Y} {
										if lx := eng.LenOf(eng.StripConv(side)); lx != nil && eng.SameField(eng.LoadedField(lx), fMsgs) {
											return "", false
										}
									}
								}
							}
						}
					}
				}
			}
		}
		// an existence probe answers a question; a negative answer is not a failure
		if name == "os.Stat" || name == "os.Lstat" {
			return "", false
		}
		return name, true
	}, true, consequence)
}
