package rules

import (
	"go/token"
	"go/types"
	"sort"
	"strings"

	"golang.org/x/tools/go/ssa"

	"ibcheck/eng"
)

func init() { Registry["C08"] = checkC08 }

func checkC08(c *Ctx) {
	r, p := c.R, c.P
	r.Explanation = "Decides the accounting skeleton behind the mailbox cap and the memory store's size limit: (D1) every writer of mem.mbox.messages is classified (insert / delete / map swap / init — an unclassified writer fails), every removal outside the enforcer's own eviction reaches enforcerRemove for each removed message on all paths (except edges on which nothing was removed or the enforcer is disabled), and the insert reaches enforcerDeliver; (D2) inside the enforcer goroutine arrivals are pushed at the back and evictions taken from the front of one list, the eviction loop guard is strictly `curSize > maxSize`, and every effective list removal is paired with a subtraction of that message's size, every push with an addition; (D3) cap eviction removes the oldest first with the relation that matches its position relative to the insert (`>` after inserting in mem, `>=` before appending in file)."
	r.NotDecided = []string{"numerical facts: never more than cap messages / never above the byte limit after every history", "that the accounted size equals the stored size for every message (C02/D3 decides Size() = len(source))"}
	r.Assumptions = []string{"container/list semantics (PushBack/Front/Remove)", "one enforcer goroutine per store (started once in mem.New)"}
	r.Rule("C08/PAIR/classify", "every writer of mem.mbox.messages is one of: map insert (add), builtin delete (remove), replacement by a fresh map (remove-all), composite-literal init; anything else is undecided")
	r.Rule("C08/PAIR/enforcer", "each removal of messages from a mem mailbox is followed, on every path to return, by enforcerRemove of each removed message (bypass allowed only on edges proving nothing was removed or the enforcer is off); the insert is followed by enforcerDeliver of the inserted message")
	r.Rule("C08/ENFORCER/shape", "enforcer: PushBack for arrivals, Front() for evictions (FIFO, oldest first); eviction loop guard `curSize > maxSize`; each effective removal subtracts that message's Size(), each push adds it")
	r.Rule("C08/CAP/order", "cap eviction: mem evicts key Itoa(first) while len(messages) > cap after the insert; file evicts messages[0] while len(messages) >= cap before the append")
	pm := c.pairing()
	if !pm.ok {
		return
	}
	for _, u := range pm.unknown {
		if u.store == "mem" {
			r.Undecided("C08/PAIR/classify", siteName(u), p.InstrPos(u.in), "unclassified writer of mem.mbox.messages")
		}
	}
	nAdd, nRem := 0, 0
	for _, a := range pm.adds {
		if a.store != "mem" {
			continue
		}
		nAdd++
		r.Ok("C08/PAIR/classify", siteName(a), p.InstrPos(a.in), "add site")
		T := eng.Outer(a.fn)
		ri := removalInstrIn(T, a)
		if ri == nil {
			r.Undecided("C08/PAIR/enforcer", siteName(a), p.InstrPos(a.in), "cannot locate the call running the inserting closure")
			continue
		}
		if v := pm.checkIn(T, ri, "enforcer-deliver", 0, map[*ssa.Function]bool{}); !v.ok {
			r.Bad("C08/PAIR/enforcer", siteName(a), p.InstrPos(ri), "the inserted message is never accounted: %s", v.detail)
		} else {
			r.Ok("C08/PAIR/enforcer", siteName(a), p.InstrPos(ri), "insert is followed by enforcerDeliver on every path (%s)", v.detail)
		}
	}
	for _, s := range pm.removes {
		if s.store != "mem" {
			continue
		}
		nRem++
		r.Ok("C08/PAIR/classify", siteName(s), p.InstrPos(s.in), "remove site (%s)", s.kind)
		v := pm.checkPair(s, "enforcer-account")
		if v.ok {
			r.Ok("C08/PAIR/enforcer", siteName(s), p.InstrPos(s.in), "%s", v.detail)
		} else {
			r.Bad("C08/PAIR/enforcer", siteName(s), p.InstrPos(s.in), "messages removed here never reach the size enforcer, so its byte account drifts upward and later evicts mail that fits: %s", v.detail)
		}
	}
	r.Floor("C08/PAIR/classify", "mem add sites", nAdd, 1)
	r.Floor("C08/PAIR/classify", "mem remove sites", nRem, 1)
	// order of the two notifications inside one operation: removals first. If the enforcer
	// hears of the new message while a message the same operation already evicted is still on
	// its books, it sees the store over the limit and evicts a live message that fits.
	r.Rule("C08/PAIR/rendezvous", "every send on the enforcer's request channels is followed, on every path to the sender's return, by a receive (the completion signal); both request channels are created together")
	r.Rule("C08/PAIR/order", "in an operation that both adds a message and removes others (cap eviction), every enforcerRemove of a removed message precedes enforcerDeliver of the added one: no enforcerRemove is reachable after enforcerDeliver")
	nOrd := 0
	for _, fn := range pkgFuncs(p, "pkg/storage/mem") {
		fn := fn
		eng.EachInstr(fn, func(in ssa.Instruction) {
			if !pm.isEnforcerDeliver(in) {
				return
			}
			nOrd++
			cons := "deliver@" + shortFn(fn)
			if late := (&eng.Search{Target: pm.enforcerRemovePred()}).After(in); late != nil {
				r.Bad("C08/PAIR/order", cons, p.InstrPos(late), "enforcerRemove of a message this operation removed is reachable after enforcerDeliver (%s) of the message it added: with a cap and a size limit together the enforcer, still counting the evicted message, evicts the next-oldest live message although the store is within its limit", p.InstrPos(in))
			} else {
				r.Ok("C08/PAIR/order", cons, p.InstrPos(in), "no removal is reported to the enforcer after the delivery")
			}
		})
	}
	r.Floor("C08/PAIR/order", "enforcerDeliver call sites", nOrd, 1)

	c.c08Enforcer(pm)
	c.c08Cap(pm)
	// a message filed in a mailbox entry that the store has dropped is listed nowhere but stays
	// on the enforcer's books for ever (decided by C07's entries-persist rule): the account
	// then holds bytes no removal will release
	nEP := c.borrow(func(c2 *Ctx) {
		if sm := c2.stores(); sm.ok {
			c2.c07Mem(sm)
		}
	}, "C07/ID/monotone/mem.Store.boxes:entries-persist", "C08/ACCOUNT/entries-persist", "memory store: mailbox entries are never deleted or replaced, so every accounted message stays reachable for the removal that releases its bytes")
	r.Floor("C08/ACCOUNT/entries-persist", "borrowed obligations", nEP, 1)
	// the newest message must survive its own delivery's cap eviction (decided by C11's
	// ordering rule for AddMessage)
	nB := c.borrow(func(c2 *Ctx) {
		if fm := c2.fsModel(); fm != nil {
			c2.c11Add(fm)
		}
	}, "C11/ORDER/add/(*file.Store).AddMessage:no-removal-in-between", "C08/CAP/newest-survives", "file store: between writing the new message's raw file and updating the index nothing can remove the mailbox directory (an eviction that empties the mailbox, e.g. cap 1, would delete the message being delivered)")
	r.Floor("C08/CAP/newest-survives", "borrowed ordering obligations", nB, 1)
	// the cap check, the eviction and the append are one step with respect to other deliveries
	// to the same mailbox (decided by C09's bucket-lock rule): two overlapping deliveries that
	// both see the pre-insertion length leave the mailbox above the cap
	nC := c.borrow(func(c2 *Ctx) {
		if pm2 := c2.pairing(); pm2.ok {
			c2.c09File(pm2)
		}
	}, "C09/GUARD/file/(*file.Store).AddMessage", "C08/CAP/atomic", "file store: AddMessage evicts down to the cap and appends the new message inside one critical section of the mailbox's bucket lock")
	r.Floor("C08/CAP/atomic", "borrowed obligations", nC, 1)
}

func (c *Ctx) c08Enforcer(pm *pairModel) {
	r, p := c.R, c.P
	E := pm.enforcerLoop
	cons := shortFn(E)
	// the enforcer goroutine's code: the loop and the package helpers it runs synchronously
	var F []*ssa.Function
	for fn := range p.SyncReach(E) {
		if eng.FuncPkgPath(fn) == eng.FuncPkgPath(E) {
			F = append(F, fn)
		}
	}
	sortFuncs(F)
	var pushBack, pushFront, front, back, removes []*ssa.Call
	for _, fn := range F {
		eng.EachInstr(fn, func(in ssa.Instruction) {
			call, ok := in.(*ssa.Call)
			if !ok {
				return
			}
			switch eng.CalleeName(call.Common()) {
			case "(*container/list.List).PushBack":
				pushBack = append(pushBack, call)
			case "(*container/list.List).PushFront", "(*container/list.List).InsertBefore", "(*container/list.List).InsertAfter", "(*container/list.List).MoveToFront", "(*container/list.List).MoveToBack":
				pushFront = append(pushFront, call)
			case "(*container/list.List).Front":
				front = append(front, call)
			case "(*container/list.List).Back":
				back = append(back, call)
			case "(*container/list.List).Remove":
				removes = append(removes, call)
			}
		})
	}
	if len(pushBack) == 1 && len(pushFront) == 0 && len(front) >= 1 && len(back) == 0 {
		r.Ok("C08/ENFORCER/shape", cons+":fifo", p.InstrPos(pushBack[0]), "arrivals PushBack, evictions from Front()")
	} else {
		r.Bad("C08/ENFORCER/shape", cons+":fifo", p.Pos(E.Pos()), "list discipline is not push-back/evict-front (PushBack=%d other-insert/move=%d Front=%d Back=%d): eviction is not oldest-first", len(pushBack), len(pushFront), len(front), len(back))
	}
	// eviction loop guard: an If whose condition is (byte account > limit) and whose true
	// edge leads to the Front()/Remove body. The limit is the enforcer's integer parameter or
	// a field the parameter is stored into.
	var maxParam ssa.Value
	for _, prm := range E.Params {
		if b, ok := prm.Type().Underlying().(*types.Basic); ok && b.Info()&types.IsInteger != 0 {
			maxParam = prm
		}
	}
	limitFields := map[*types.Var]bool{}
	for _, fn := range F {
		eng.EachInstr(fn, func(in ssa.Instruction) {
			if st, ok := in.(*ssa.Store); ok && maxParam != nil && eng.StripConv(st.Val) == maxParam {
				if fa, ok := st.Addr.(*ssa.FieldAddr); ok {
					limitFields[eng.FieldOfAddr(fa)] = true
				}
			}
		})
	}
	isLimit := func(v ssa.Value) bool {
		v = eng.StripConv(v)
		if maxParam != nil && v == maxParam {
			return true
		}
		// handed on as a parameter to the helper that holds the eviction loop
		for w, i := v, 0; maxParam != nil && i < 4; i++ {
			prm, ok := w.(*ssa.Parameter)
			if !ok || prm.Parent().Parent() != nil {
				break
			}
			sites := p.StaticCallSites(prm.Parent())
			pi := eng.ParamIndex(prm)
			if len(sites) != 1 || pi < 0 || pi >= len(sites[0].Args) {
				break
			}
			w = eng.StripConv(sites[0].Args[pi])
			if w == maxParam {
				return true
			}
		}
		// the parameter captured by a closure of the enforcer
		if ad := eng.LoadAddr(v); ad != nil && maxParam != nil {
			if cell := eng.CellOf(ad); cell != nil {
				if sts := eng.CellStores(cell); len(sts) == 1 && eng.StripConv(sts[0].Val) == maxParam {
					return true
				}
			}
		}
		if f := eng.LoadedField(v); f != nil && limitFields[f] {
			return true
		}
		// an integer field of the enforcer's own type that is only ever set where the enforcer
		// is built (sizeEnforcer.maxSize)
		if f := eng.LoadedField(v); f != nil && len(E.Params) > 0 {
			if b, ok := f.Type().Underlying().(*types.Basic); ok && b.Info()&types.IsInteger != 0 && fieldOfRecv(E, f) {
				sts := eng.StoresToField(pkgFuncs(p, "pkg/storage/mem"), f)
				onlyInit := len(sts) > 0
				for _, st := range sts {
					fa, ok := st.Store.Addr.(*ssa.FieldAddr)
					if !ok {
						onlyInit = false
						continue
					}
					if _, fresh := fa.X.(*ssa.Alloc); !fresh {
						onlyInit = false
					}
				}
				if onlyInit {
					return true
				}
			}
		}
		return false
	}
	// takesFront: a helper of the enforcer (not the enforcer itself) that takes list.Front()
	inF := map[*ssa.Function]bool{}
	for _, fn := range F {
		inF[fn] = true
	}
	var takesFront func(g *ssa.Function, depth int) bool
	takesFront = func(g *ssa.Function, depth int) bool {
		if g == nil || g == E || !inF[g] || depth > 3 {
			return false
		}
		found := false
		eng.EachInstr(g, func(in ssa.Instruction) {
			if call, ok := in.(*ssa.Call); ok && g == in.Parent() {
				if eng.CalleeName(call.Common()) == "(*container/list.List).Front" || takesFront(eng.StaticCallee(call.Common()), depth+1) {
					found = true
				}
			}
		})
		return found
	}
	guardOK, guardSite := false, ""
	var guardWhy string
	for _, fn := range F {
		for _, b := range fn.Blocks {
			rel, ok := eng.EdgeRel(b, 0)
			if !ok {
				// the comparison in a helper of the enforcer (for ledger.over() { … }): the
				// relation its single boolean result stands for
				if v, pol, okT := eng.CondTruth(b, 0); okT {
					if hc, isCall := v.(*ssa.Call); isCall {
						if rets, hg := eng.ReturnedValues(hc, 0); hg != nil && inF[hg] && hg != E && len(rets) == 1 {
							if hr, okR := eng.CondRel(rets[0]); okR {
								rel, ok = hr, true
								if !pol {
									rel = rel.Neg()
								}
							}
						}
					}
				}
				if !ok {
					continue
				}
			}
			if isLimit(rel.X) {
				rel = rel.Swap()
			}
			if !isLimit(rel.Y) {
				continue
			}
			// which edge evicts (reaches Front())?
			evictEdge := -1
			for k := 0; k < 2; k++ {
				if eng.BlockReaches(b.Succs[k], func(in ssa.Instruction) bool {
					call, ok := in.(*ssa.Call)
					return ok && (eng.CalleeName(call.Common()) == "(*container/list.List).Front" || takesFront(eng.StaticCallee(call.Common()), 0))
				}, func(in ssa.Instruction) bool { return in == ssa.Instruction(eng.IfOf(b)) }) != nil {
					if evictEdge == -1 {
						evictEdge = k
					}
				}
			}
			if evictEdge == -1 {
				continue
			}
			guardSite = p.InstrPos(eng.IfOf(b))
			er := rel
			if evictEdge == 1 {
				er = rel.Neg()
			}
			if er.Op == token.GTR {
				guardOK = true
			} else {
				guardWhy = "eviction continues while curSize " + er.Op.String() + " maxSize; must be strictly `>` (evict only what is necessary)"
			}
		}
	}
	if guardSite == "" {
		r.Bad("C08/ENFORCER/shape", cons+":guard", p.Pos(E.Pos()), "no eviction loop guard comparing the byte account with the maxSize parameter")
	} else if guardOK && guardWhy == "" {
		r.Ok("C08/ENFORCER/shape", cons+":guard", guardSite, "eviction loop runs while curSize > maxSize")
	} else {
		r.Bad("C08/ENFORCER/shape", cons+":guard", guardSite, "%s", guardWhy)
	}
	// accounting arithmetic: count +Size() after PushBack and -Size() under each effective Remove
	isSizeCall := func(v ssa.Value) bool {
		v = eng.StripConv(v)
		call, ok := v.(*ssa.Call)
		if !ok {
			return false
		}
		g := eng.StaticCallee(call.Common())
		return g != nil && g.Name() == "Size" && eng.InModule(g)
	}
	var adds, subs, helperSubs []*ssa.BinOp
	for _, fn := range F {
		eng.EachInstr(fn, func(in ssa.Instruction) {
			b, ok := in.(*ssa.BinOp)
			if !ok {
				return
			}
			if b.Op == token.ADD && isSizeCall(b.Y) {
				adds = append(adds, b)
			}
			if b.Op == token.SUB && isSizeCall(b.Y) {
				subs = append(subs, b)
			}
			// curSize -= s.evictOldest(all): the helper reports what it freed
			if call, ok := eng.StripConv(b.Y).(*ssa.Call); ok && b.Op == token.SUB && !isSizeCall(b.Y) {
				if g := eng.StaticCallee(call.Common()); g != nil && inF[g] && g != E {
					helperSubs = append(helperSubs, b)
				}
			}
		})
	}
	// the back-reference from a message to its list element is the enforcer's record of "this
	// message is registered": it is written when the message is pushed and by nothing else. The
	// removal branch reads it (nil = delivery still pending, the size is not subtracted), so a
	// second writer that clears it makes an eviction and a pending removal each leave the
	// subtraction to the other
	if elF := memElementField(p); elF != nil {
		{
			for _, f := range []*types.Var{elF} {
				var other []string
				nW := 0
				for _, s2 := range eng.StoresToField(pkgFuncs(p, "pkg/storage/mem"), f) {
					if _, fresh := s2.Addr.X.(*ssa.Alloc); fresh {
						continue
					}
					nW++
					pc, isCall := s2.Store.Val.(*ssa.Call)
					if !isCall || eng.CalleeName(pc.Common()) != "(*container/list.List).PushBack" {
						other = append(other, p.InstrPos(s2.Store))
					}
				}
				sort.Strings(other)
				if len(other) > 0 {
					r.Bad("C08/ENFORCER/shape", cons+":registration-mark", other[0], "Message.%s is written at %s by something other than the registration (PushBack): the removal branch takes a cleared mark for a delivery that is still pending and skips the subtraction, while the eviction that cleared it skipped it too — the byte account drifts upward and the enforcer later evicts mail from a store that is under its limit", f.Name(), strings.Join(other, ", "))
				} else if nW > 0 {
					r.Ok("C08/ENFORCER/shape", cons+":registration-mark", "", "Message.%s is written only by the registration (PushBack)", f.Name())
				}
			}
		}
	}
	if len(pushBack) == 1 && len(adds) == 1 && pushBack[0].Parent() == adds[0].Parent() && eng.Dominates(pushBack[0], adds[0]) {
		r.Ok("C08/ENFORCER/shape", cons+":add", p.InstrPos(adds[0]), "push is followed by curSize += Size()")
	} else {
		r.Bad("C08/ENFORCER/shape", cons+":add", p.Pos(E.Pos()), "a pushed message is not added to the byte account exactly once (pushes=%d additions=%d)", len(pushBack), len(adds))
	}
	// each Remove must have a subtraction dominated by a success test of that removal
	// success witness: blk is dominated by a `x != nil` edge where x is the Remove result or
	// the result of the removal helper fed by the removed element
	successDominates := func(rm *ssa.Call, blk *ssa.BasicBlock) bool {
		for _, b := range rm.Parent().Blocks {
			for k := 0; k < len(b.Succs) && len(b.Succs) == 2; k++ {
				rel, ok := eng.EdgeRel(b, k)
				if !ok || rel.Op != token.NEQ || !eng.IsNilConst(rel.Y) {
					continue
				}
				if !eng.EdgeDominates(b, k, blk) {
					continue
				}
				if rel.X == ssa.Value(rm) {
					return true
				}
				if call, ok := rel.X.(*ssa.Call); ok && eng.Dominates(rm, call) && pm.removedOrigin(call, 0) {
					return true
				}
			}
		}
		return false
	}
	// freedBy: the helper containing rm returns the bytes the removal freed: Size() where the
	// removal was effective, the constant 0 elsewhere
	freedBy := func(rm *ssa.Call) bool {
		h := rm.Parent()
		nSize, okAll := 0, true
		eng.EachInstr(h, func(in ssa.Instruction) {
			ret, ok := in.(*ssa.Return)
			if !ok || in.Parent() != h {
				return
			}
			res := eng.ReturnResults(ret)
			if len(res) != 1 {
				okAll = false
				return
			}
			if k, isK := eng.ConstInt(eng.StripConv(res[0])); isK && k == 0 {
				return
			}
			if isSizeCall(res[0]) && eng.Dominates(rm, ret) && successDominates(rm, ret.Block()) {
				nSize++
				return
			}
			okAll = false
		})
		return okAll && nSize > 0
	}
	// subtracting helpers: functions of the enforcer every path of which subtracts a Size()
	// from the account (ledger.release(m)); a call of one is a subtraction at the call site
	isSubOp := func(in ssa.Instruction) bool {
		b, ok := in.(*ssa.BinOp)
		return ok && b.Op == token.SUB && isSizeCall(b.Y)
	}
	subHelper := map[*ssa.Function]bool{}
	for _, g := range F {
		if g == E || g.Parent() != nil {
			continue
		}
		has := false
		eng.EachInstr(g, func(in ssa.Instruction) {
			if isSubOp(in) {
				has = true
			}
		})
		if has && (&eng.Search{Target: eng.IsReturnOf(g), Avoid: isSubOp}).FromEntry(g) == nil {
			subHelper[g] = true
		}
	}
	var subCalls []*ssa.Call
	for _, fn := range F {
		eng.EachInstr(fn, func(in ssa.Instruction) {
			if call, ok := in.(*ssa.Call); ok && subHelper[eng.StaticCallee(call.Common())] {
				subCalls = append(subCalls, call)
			}
		})
	}
	for i, rm0 := range removes {
		okSub := false
		// a removal in a helper that does not account for it itself (popOldest) is judged at
		// the helper's call sites in the enforcer
		rmSites := []*ssa.Call{rm0}
		if h := rm0.Parent(); h != E && h.Parent() == nil {
			hasSub := false
			eng.EachInstr(h, func(in ssa.Instruction) {
				if isSubOp(in) {
					hasSub = true
				}
				if call, ok := in.(*ssa.Call); ok && subHelper[eng.StaticCallee(call.Common())] {
					hasSub = true
				}
			})
			if !hasSub {
				var lifted []*ssa.Call
				for _, cs := range p.StaticCallSites(h) {
					if sc, ok := cs.Instr.(*ssa.Call); ok && inF[sc.Parent()] {
						lifted = append(lifted, sc)
					}
				}
				if len(lifted) > 0 {
					rmSites = lifted
				}
			}
		}
		rm := rm0
		nOK := 0
		for _, site := range rmSites {
			siteOK := false
			for _, sb := range subs {
				if sb.Parent() != site.Parent() || !eng.Dominates(site, sb) {
					continue
				}
				if successDominates(site, sb.Block()) {
					siteOK = true
				}
			}
			for _, sc := range subCalls {
				if sc.Parent() != site.Parent() || !eng.Dominates(site, sc) {
					continue
				}
				if successDominates(site, sc.Block()) {
					siteOK = true
				}
			}
			if siteOK {
				nOK++
			}
		}
		if nOK == len(rmSites) && nOK > 0 {
			okSub = true
		}
		for _, sb := range helperSubs {
			if call, ok := eng.StripConv(sb.Y).(*ssa.Call); ok && eng.StaticCallee(call.Common()) == rm.Parent() && rm.Parent() != E && freedBy(rm) {
				okSub = true
			}
		}
		_ = i
		name := cons + ":sub:explicit-removal"
		if fc, ok := rm.Call.Args[len(rm.Call.Args)-1].(*ssa.Call); ok && eng.CalleeName(fc.Common()) == "(*container/list.List).Front" {
			name = cons + ":sub:eviction"
		}
		// an eviction releases the bytes of the message it evicted: the size subtracted is computed
		// from the element taken off the list (its Value, or what Remove returned), not from the
		// message that is arriving
		if okSub && strings.HasSuffix(name, ":sub:eviction") {
			for _, sb := range subs {
				if sb.Parent() != rm.Parent() || !eng.Dominates(rm, sb) {
					continue
				}
				fromEvicted := eng.BackSlice(sb.Y, func(v ssa.Value) bool {
					if v == ssa.Value(rm) {
						return true
					}
					if f := eng.LoadedField(v); f != nil && f.Name() == "Value" && f.Pkg() != nil && f.Pkg().Path() == "container/list" {
						return true
					}
					return false
				})
				if !fromEvicted {
					okSub = false
					r.Bad("C08/ENFORCER/shape", name+":of-the-evicted", p.InstrPos(sb), "the bytes subtracted for an eviction are not the evicted message's: the size does not come from the element taken off the list, so with messages of different sizes the account says less (the store holds more than its limit) or more (later deliveries evict mail that fits) than is stored")
				}
			}
			if okSub {
				r.Ok("C08/ENFORCER/shape", name+":of-the-evicted", p.InstrPos(rm), "the size subtracted is that of the element taken off the list")
			}
			if !okSub {
				continue
			}
		}
		if okSub {
			r.Ok("C08/ENFORCER/shape", name, p.InstrPos(rm), "list removal is paired with curSize -= Size() on the path where the removal was effective")
		} else {
			r.Bad("C08/ENFORCER/shape", name, p.InstrPos(rm), "list removal has no matching subtraction from the byte account under a success test: the account drifts")
		}
	}
	r.Floor("C08/ENFORCER/shape", "list removals in the enforcer", len(removes), 1)
	c.c08PendingRemoval(pm, F, pushBack)
	c.c08Rendezvous(pm)
}

// c08PendingRemoval: a removal can reach the enforcer before the delivery of the same message
// (the message is visible in its mailbox before it is registered). The removal arm then finds
// no list element; it must leave a mark on the message, and the delivery arm must not register
// a marked message — otherwise the message is counted although it is gone, its bytes are never
// released, and the enforcer later evicts mail from a store that is within its limit.
func (c *Ctx) c08PendingRemoval(pm *pairModel, F []*ssa.Function, pushBack []*ssa.Call) {
	r, p := c.R, c.P
	E := pm.enforcerLoop
	cons := shortFn(E) + ":pending-removal"
	elF := memElementField(p)
	if elF == nil || len(pushBack) != 1 {
		return
	}
	// the unregistered branch of the removal arm: an edge on which a load of the element field
	// is nil
	var mark *types.Var
	var markSite ssa.Instruction
	found := false
	for _, fn := range F {
		for _, b := range fn.Blocks {
			for k := 0; k < len(b.Succs) && len(b.Succs) == 2; k++ {
				rel, ok := eng.EdgeRel(b, k)
				if !ok || rel.Op != token.EQL || !eng.IsNilConst(rel.Y) || !eng.SameField(eng.LoadedField(rel.X), elF) {
					continue
				}
				found = true
				// a store of a constant to a field of the message (or of its bookkeeping record)
				// on that edge
				for _, blk := range fn.Blocks {
					if !eng.EdgeDominates(b, k, blk) && blk != b.Succs[k] {
						continue
					}
					for _, in := range blk.Instrs {
						st, isSt := in.(*ssa.Store)
						if !isSt {
							continue
						}
						fa, isFA := st.Addr.(*ssa.FieldAddr)
						if !isFA {
							continue
						}
						if bv, isC := eng.ConstBool(st.Val); isC && bv {
							mark, markSite = eng.FieldOfAddr(fa), in
						}
					}
				}
			}
		}
	}
	if !found {
		return // the design has no unregistered case (the rule C09/NIL/el then has nothing to guard either)
	}
	if mark == nil {
		r.Bad("C08/ENFORCER/shape", cons, p.Pos(E.Pos()), "a removal that arrives before the message's delivery (no list element yet) leaves no mark on the message: the delivery that follows registers a message that is already gone, its bytes are never released, and the account drifts upward")
		return
	}
	// the registration is skipped for a marked message
	pb := pushBack[0]
	underUnmarked := func(at ssa.Instruction) bool {
		for _, b := range at.Parent().Blocks {
			for k := 0; k < len(b.Succs) && len(b.Succs) == 2; k++ {
				v, pol, ok := eng.CondTruth(b, k)
				if ok && !pol && eng.SameField(eng.LoadedField(v), mark) && eng.EdgeDominates(b, k, at.Block()) {
					return true
				}
			}
		}
		return false
	}
	guarded := underUnmarked(pb)
	if !guarded && pb.Parent() != E {
		// the registration sits in a helper or function literal of the enforcer (track(m)): the
		// test is made where that is called
		nCalls, nGuarded := 0, 0
		for _, fn := range F {
			eng.EachInstr(fn, func(in ssa.Instruction) {
				call, ok := in.(*ssa.Call)
				if !ok || call.Call.IsInvoke() {
					return
				}
				g := eng.StaticCallee(call.Common())
				if g == nil {
					if fv, _, isFn := eng.FuncValueOf(eng.ResolveLocalLoad(call.Call.Value)); isFn {
						g = fv
					}
				}
				if g != pb.Parent() {
					return
				}
				nCalls++
				if underUnmarked(in) {
					nGuarded++
				}
			})
		}
		guarded = nCalls > 0 && nCalls == nGuarded
	}
	if guarded {
		r.Ok("C08/ENFORCER/shape", cons, p.InstrPos(markSite), "a removal that overtakes its delivery marks the message (%s), and the delivery arm registers only unmarked messages", mark.Name())
	} else {
		r.Bad("C08/ENFORCER/shape", cons, p.InstrPos(pb), "the delivery arm registers a message without testing the mark (%s) that an overtaking removal leaves on it: a message that is already gone is counted, its bytes are never released, and the account drifts upward", mark.Name())
	}
}

// c08Rendezvous: the store operations wait for the enforcer to have processed each notice
// (send, then receive on the record's done channel) and the two request channels exist
// together. Without the wait the order of a removal notice and the delivery notice that follows
// it is lost (they travel on two channels the enforcer selects from), and with only one channel
// made the other kind of notice is silently dropped.
func (c *Ctx) c08Rendezvous(pm *pairModel) {
	r, p := c.R, c.P
	n := 0
	ord := map[string]int{}
	for _, fn := range pkgFuncs(p, "pkg/storage/mem") {
		fn := fn
		eng.EachInstr(fn, func(in ssa.Instruction) {
			sd, ok := in.(*ssa.Send)
			if !ok {
				return
			}
			ch := eng.StripConv(sd.Chan)
			if prm, isP := ch.(*ssa.Parameter); isP {
				ch = eng.StripConv(p.Actual(prm))
			}
			f := eng.LoadedField(ch)
			isReq := eng.SameField(f, pm.fRemove) || eng.SameField(f, pm.fIncoming)
			if !isReq {
				// the shared helper's own parameter (submit(c enforcerChan, …), enforcerSend(ch, m)):
				// every caller passes one of the two request channels
				if prm, isP := eng.StripConv(sd.Chan).(*ssa.Parameter); isP {
					if pm.enforcerVia == prm.Parent() {
						isReq = true
					} else if vals, ok := p.ActualsOf(prm); ok && len(vals) > 0 {
						all := true
						for _, a := range vals {
							af := eng.LoadedField(eng.StripConv(a))
							if !eng.SameField(af, pm.fRemove) && !eng.SameField(af, pm.fIncoming) {
								all = false
							}
						}
						isReq = all
					}
				}
			}
			if !isReq {
				return
			}
			n++
			cons := siteCons(p, in, ord, "rendezvous")
			isRecv := func(x ssa.Instruction) bool {
				u, ok := x.(*ssa.UnOp)
				return ok && u.Op == token.ARROW
			}
			waits := func(x ssa.Instruction) bool {
				if isRecv(x) {
					return true
				}
				// a helper every path of which waits (md.wait())
				if call, ok := x.(*ssa.Call); ok {
					if g := eng.StaticCallee(call.Common()); g != nil && eng.FuncPkgPath(g) == eng.Mod+"/pkg/storage/mem" && len(g.Blocks) > 0 {
						return (&eng.Search{Target: eng.IsReturnOf(g), Avoid: isRecv}).FromEntry(g) == nil
					}
				}
				return false
			}
			if ret := (&eng.Search{Target: eng.IsReturnOf(fn), Avoid: waits}).After(in); ret != nil {
				r.Bad("C08/PAIR/rendezvous", cons, p.InstrPos(in), "%s hands a notice to the size enforcer and can return at %s without waiting for it to be processed: a removal notice and the delivery notice that follows it travel on two channels, so the enforcer may see the delivery first, count both messages and evict a live one", shortFn(fn), p.InstrPos(ret))
			} else {
				r.Ok("C08/PAIR/rendezvous", cons, p.InstrPos(in), "the notice is awaited before the operation goes on")
			}
		})
	}
	r.Floor("C08/PAIR/rendezvous", "sends on the enforcer's request channels", n, 1)
	// …and the enforcer answers every notice: from the select that takes a notice, the next
	// round of the loop is not reachable without a close (of the notice's completion channel) on
	// the way. A branch that goes round without it leaves the delivering (or removing) goroutine
	// waiting for ever — with the mailbox's delivery half done
	if loop := pm.enforcerLoop; loop != nil {
		nSel := 0
		isClose := func(x ssa.Instruction) bool {
			if rd, isRD := x.(*ssa.RunDefers); isRD {
				// defer close(md.done), registered on the way here
				found := false
				eng.EachInstr(rd.Parent(), func(y ssa.Instruction) {
					if df, isDf := y.(*ssa.Defer); isDf && eng.CalleeName(df.Common()) == "builtin.close" && (df.Block() == rd.Block() || df.Block().Dominates(rd.Block())) {
						found = true
					}
				})
				return found
			}
			call, ok := x.(*ssa.Call)
			return ok && eng.CalleeName(call.Common()) == "builtin.close"
		}
		eng.EachInstr(loop, func(in ssa.Instruction) {
			sel, ok := in.(*ssa.Select)
			if !ok || in.Parent() != loop {
				return
			}
			nSel++
			again := (&eng.Search{Target: func(x ssa.Instruction) bool { return x == ssa.Instruction(sel) }, Avoid: isClose, Deep: true}).After(sel)
			if again != nil {
				r.Bad("C08/PAIR/rendezvous", "enforcer-answers", p.InstrPos(sel), "the enforcer can take a notice here and come back for the next one without closing the notice's completion channel: the goroutine that sent it (a delivery, a removal, a purge) never returns")
			} else {
				r.Ok("C08/PAIR/rendezvous", "enforcer-answers", p.InstrPos(sel), "every round that takes a notice closes its completion channel before the next")
			}
		})
		if nSel == 0 {
			r.Undecided("C08/PAIR/rendezvous", "enforcer-answers", p.Pos(loop.Pos()), "the enforcer loop has no select: the shape this clause reads is gone")
		}
	}
	// both channels are made where one is
	var mkIn, mkRm []ssa.Instruction
	for _, fs := range eng.StoresToField(pkgFuncs(p, "pkg/storage/mem"), pm.fIncoming) {
		if _, isMk := fs.Store.Val.(*ssa.MakeChan); isMk {
			mkIn = append(mkIn, fs.Store)
		}
	}
	for _, fs := range eng.StoresToField(pkgFuncs(p, "pkg/storage/mem"), pm.fRemove) {
		if _, isMk := fs.Store.Val.(*ssa.MakeChan); isMk {
			mkRm = append(mkRm, fs.Store)
		}
	}
	okBoth := len(mkIn) > 0 && len(mkIn) == len(mkRm)
	for i := range mkIn {
		if i < len(mkRm) && !(eng.Dominates(mkIn[i], mkRm[i]) || eng.Dominates(mkRm[i], mkIn[i])) {
			okBoth = false
		}
	}
	if okBoth {
		r.Ok("C08/PAIR/rendezvous", "channels", p.InstrPos(mkIn[0]), "the delivery and removal channels are created together")
	} else {
		site := ""
		if len(mkIn) > 0 {
			site = p.InstrPos(mkIn[0])
		}
		r.Bad("C08/PAIR/rendezvous", "channels", site, "the enforcer's delivery and removal channels are not created together (%d vs %d creations): with one of them nil that kind of notice is dropped without a trace and the byte account drifts", len(mkIn), len(mkRm))
	}
}

func (c *Ctx) c08Cap(pm *pairModel) {
	r, p := c.R, c.P
	fCap := p.Field("pkg/storage/mem", "Store", "cap")
	// the eviction cursor is found by its role: the integer field of mem.mbox that the cap
	// loop advances by one (today: mbox.first)
	var fFirst *types.Var
	if mboxT := p.Named("pkg/storage/mem", "mbox"); mboxT != nil {
		if st, ok := mboxT.Underlying().(*types.Struct); ok {
			for i := 0; i < st.NumFields(); i++ {
				f := st.Field(i)
				if b, ok := f.Type().Underlying().(*types.Basic); !ok || b.Info()&types.IsInteger == 0 {
					continue
				}
				for _, s := range eng.StoresToField(pkgFuncs(p, "pkg/storage/mem"), f) {
					if !isIncrementOf(s.Store.Val, f) {
						continue
					}
					// inside a loop guarded by len(messages) REL cap, or in a helper such a loop calls
					guardedIn := func(g *ssa.Function, at *ssa.BasicBlock) bool {
						for _, b := range g.Blocks {
							rel, ok := eng.EdgeRel(b, 0)
							if !ok {
								continue
							}
							if lx := eng.LenOf(rel.X); lx != nil && eng.SameField(eng.LoadedField(lx), pm.memMsgs) && b.Succs[0].Dominates(at) && len(loopHeaders(at)) > 0 {
								return true
							}
						}
						return false
					}
					if guardedIn(s.Fn, s.Store.Block()) {
						fFirst = f
					} else {
						for _, cs := range p.StaticCallSites(s.Fn) {
							site := cs.Instr.(ssa.Instruction)
							if guardedIn(site.Parent(), site.Block()) {
								fFirst = f
							}
						}
					}
				}
			}
		}
	}
	fFileCap := p.Field("pkg/storage/file", "Store", "messageCap")
	if fCap == nil || fFileCap == nil {
		return
	}
	// mem: every guard `len(messages) REL cap` that controls an eviction; the eviction may be
	// a delete in the loop body itself or in helpers the body calls
	nMem := 0
	memFns := pkgFuncs(p, "pkg/storage/mem")
	sortFuncs(memFns)
	isDeleteSite := map[ssa.Instruction]removeSite{}
	for _, s := range pm.removes {
		if s.store == "mem" && s.kind == "delete" {
			isDeleteSite[s.in] = s
		}
	}
	type chainStep struct {
		call *ssa.Call // call in the previous function leading on
	}
	for _, fn := range memFns {
		for _, b := range fn.Blocks {
			rel, ok := eng.EdgeRel(b, 0)
			if !ok {
				continue
			}
			lx := eng.LenOf(rel.X)
			if lx == nil || !eng.SameField(eng.LoadedField(lx), pm.memMsgs) || !isLoadOfThroughRecords(p, p.Actual(eng.StripConv(rel.Y)), fCap) {
				continue
			}
			body := b.Succs[0]
			// find the delete: directly in the guarded region, or through calls (depth <= 3)
			var del *ssa.Call
			var chain []*ssa.Call
			var find func(g *ssa.Function, region func(*ssa.BasicBlock) bool, depth int, path []*ssa.Call) bool
			find = func(g *ssa.Function, region func(*ssa.BasicBlock) bool, depth int, path []*ssa.Call) bool {
				if depth > 3 {
					return false
				}
				found := false
				eng.EachInstr(g, func(in ssa.Instruction) {
					if found || !region(in.Block()) {
						return
					}
					call, ok := in.(*ssa.Call)
					if !ok {
						return
					}
					if _, isDel := isDeleteSite[in]; isDel {
						del, chain, found = call, append([]*ssa.Call{}, path...), true
						return
					}
					if h := eng.StaticCallee(call.Common()); h != nil && eng.FuncPkgPath(h) == eng.FuncPkgPath(fn) && len(h.Blocks) > 0 && h != g {
						if find(h, func(*ssa.BasicBlock) bool { return true }, depth+1, append(path, call)) {
							found = true
						}
					}
				})
				return found
			}
			if !find(fn, func(bb *ssa.BasicBlock) bool { return body.Dominates(bb) }, 0, nil) {
				continue
			}
			nMem++
			cons := "mem:" + shortFn(eng.Outer(fn))
			site := p.InstrPos(eng.IfOf(b))
			// the deleted key, followed back through the call chain
			key := del.Call.Args[1]
			for i := len(chain) - 1; i >= 0; i-- {
				prm, isP := eng.StripConv(key).(*ssa.Parameter)
				if !isP {
					break
				}
				pi := eng.ParamIndex(prm)
				if pi < 0 || pi >= len(chain[i].Call.Args) || eng.StaticCallee(chain[i].Common()) != prm.Parent() {
					break
				}
				key = chain[i].Call.Args[pi]
			}
			keyOK := false
			if fFirst != nil {
				for _, cand := range []ssa.Value{key, eng.Unwrap(key)} {
					if kc, ok := cand.(*ssa.Call); ok && eng.CalleeName(kc.Common()) == "strconv.Itoa" && eng.SameField(eng.LoadedField(kc.Call.Args[0]), fFirst) {
						keyOK = true
					}
				}
			}
			// insert must dominate the guard (in the guard's function, or at its call sites)
			insDom := false
			for _, a := range pm.adds {
				if a.store == "mem" && a.fn == fn && eng.Dominates(a.in, eng.IfOf(b)) {
					insDom = true
				}
			}
			if !insDom {
				sites := p.StaticCallSites(fn)
				all := len(sites) > 0
				for _, cs := range sites {
					one := false
					eng.EachInstr(cs.Instr.Parent(), func(in ssa.Instruction) {
						call, ok := in.(*ssa.Call)
						if !ok || !eng.Dominates(in, cs.Instr.(ssa.Instruction)) {
							return
						}
						g := eng.StaticCallee(call.Common())
						for _, a := range pm.adds {
							if a.store == "mem" && g != nil && p.SyncReach(g)[a.fn] {
								one = true
							}
						}
					})
					if !one {
						all = false
					}
				}
				insDom = all
			}
			switch {
			case !insDom:
				r.Bad("C08/CAP/order", cons, site, "cap loop is not preceded by the insert; with `>` the mailbox would exceed the cap by one")
			case rel.Op != token.GTR:
				r.Bad("C08/CAP/order", cons, site, "cap loop after the insert must run while len(messages) > cap; found `%s`", rel.Op)
			case fFirst == nil:
				r.Bad("C08/CAP/order", cons, site, "cap eviction keeps no cursor that advances over the ids (no integer field of the mailbox is incremented in an eviction loop): with gaps in the id sequence (a message removed from the middle) the computed key misses and the mailbox stays over the cap")
			case !keyOK:
				r.Bad("C08/CAP/order", cons, site, "cap eviction does not delete key strconv.Itoa(mbox.%s): not oldest-first", fFirst.Name())
			default:
				r.Ok("C08/CAP/order", cons, site, "after the insert, evicts Itoa(%s) while len(messages) > cap", fFirst.Name())
			}
		}
	}
	r.Floor("C08/CAP/order", "mem cap loops", nMem, 1)
	// file
	newMsg := p.Method("pkg/storage/file", "mbox", "newMessage")
	rmMsg := p.Method("pkg/storage/file", "mbox", "removeMessage")
	if newMsg == nil || rmMsg == nil {
		return
	}
	nFile := 0
	for _, fn := range pkgFuncs(p, "pkg/storage/file") {
		for _, b := range fn.Blocks {
			isCapRel := func(rl eng.Rel) bool {
				lx := eng.LenOf(rl.X)
				return lx != nil && eng.SameField(eng.LoadedField(lx), pm.fileMsgs) && eng.SameField(eng.LoadedField(eng.StripConv(rl.Y)), fFileCap)
			}
			rel, ok := eng.EdgeRel(b, 0)
			if !ok || !isCapRel(rel) {
				// the loop condition may be a predicate of the package (for mb.atMessageCap() {…}):
				// the comparison is then the one its result is built from
				ok = false
				if v, pol, okT := eng.CondTruth(b, 0); okT && pol && len(loopHeaders(b)) > 0 {
					if hc, isCall := v.(*ssa.Call); isCall {
						if g := eng.StaticCallee(hc.Common()); g != nil && eng.FuncPkgPath(g) == eng.FuncPkgPath(fn) && len(g.Blocks) > 0 {
							eng.EachInstr(g, func(gi ssa.Instruction) {
								bo, isB := gi.(*ssa.BinOp)
								if !isB {
									return
								}
								if rl, okR := eng.CondRel(bo); okR && isCapRel(rl) {
									// it must feed the predicate's result
									feeds := false
									for _, ret := range successReturns(g) {
										rv := eng.ReturnResults(ret)[0]
										if rv == ssa.Value(bo) {
											feeds = true
										}
										if ph, isPhi := rv.(*ssa.Phi); isPhi {
											for _, e := range ph.Edges {
												if e == ssa.Value(bo) {
													feeds = true
												}
											}
										}
									}
									if feeds {
										rel, ok = rl, true
									}
								}
							})
						}
					}
				}
				if !ok {
					continue
				}
			}
			nFile++
			cons := "file:" + shortFn(fn)
			site := p.InstrPos(eng.IfOf(b))
			// body removes messages[0]
			var rmCall *ssa.Call
			eng.BlockReaches(b.Succs[0], func(in ssa.Instruction) bool {
				call, ok := in.(*ssa.Call)
				if !ok {
					return false
				}
				g := eng.StaticCallee(call.Common())
				if g == rmMsg {
					rmCall = call
					return true
				}
				// a helper of the package that removes one message (mb.evictOldest())
				if g != nil && eng.FuncPkgPath(g) == eng.FuncPkgPath(fn) && len(g.Blocks) > 0 && g != fn {
					var inner []*ssa.Call
					eng.EachInstr(g, func(gi ssa.Instruction) {
						if c2, ok := gi.(*ssa.Call); ok && eng.StaticCallee(c2.Common()) == rmMsg {
							inner = append(inner, c2)
						}
					})
					if len(inner) == 1 && len(loopHeaders(inner[0].Block())) == 0 {
						rmCall = inner[0]
						return true
					}
				}
				return false
			}, func(in ssa.Instruction) bool { return in == ssa.Instruction(eng.IfOf(b)) })
			oldest := false
			if rmCall != nil {
				// id = messages[0].ID()
				idv := rmCall.Call.Args[len(rmCall.Call.Args)-1]
				if ic, ok := idv.(*ssa.Call); ok {
					recv := ic.Call.Args
					var base ssa.Value
					if ic.Call.IsInvoke() {
						base = ic.Call.Value
					} else if len(recv) > 0 {
						base = recv[0]
					}
					base = unwrapIface(base)
					if u, ok := base.(*ssa.UnOp); ok {
						if ia, ok := u.X.(*ssa.IndexAddr); ok {
							if k, ok := eng.ConstInt(ia.Index); ok && k == 0 && eng.SameField(eng.LoadedField(ia.X), pm.fileMsgs) {
								oldest = true
							}
						}
					}
				}
			}
			// the append must come after this function returns: the add site's function calls fn before appending
			before := false
			for _, a := range pm.adds {
				if a.store != "file" {
					continue
				}
				// the append may sit in a helper (commitMessage): then its only call site is
				// what the cap loop has to precede
				afn, at := a.fn, a.in
				for depth := 0; depth < 3; depth++ {
					eng.EachInstr(afn, func(in ssa.Instruction) {
						call, ok := in.(*ssa.Call)
						if !ok || !eng.Dominates(call, at) {
							return
						}
						if g := eng.StaticCallee(call.Common()); g == fn || g != nil && eng.FuncPkgPath(g) == eng.FuncPkgPath(fn) && p.SyncReach(g)[fn] {
							before = true
						}
					})
					sites := p.StaticCallSites(afn)
					if before || afn.Parent() != nil || len(sites) != 1 || len(p.CallersOf(afn)) != 1 {
						break
					}
					at = sites[0].Instr.(ssa.Instruction)
					afn = at.Parent()
				}
			}
			if rmCall == nil {
				// positional form: the body calls a helper that slices out messages[i] with the
				// constant position 0
				eng.BlockReaches(b.Succs[0], func(in ssa.Instruction) bool {
					call, ok := in.(*ssa.Call)
					if !ok {
						return false
					}
					g := eng.StaticCallee(call.Common())
					if g == nil || eng.FuncPkgPath(g) != eng.FuncPkgPath(fn) {
						return false
					}
					for _, rs := range pm.removes {
						if rs.store != "file" || rs.fn != g || rs.kind != "slice-out" {
							continue
						}
						st, _ := rs.in.(*ssa.Store)
						if st == nil {
							continue
						}
						ap, _ := st.Val.(*ssa.Call)
						if ap == nil || len(ap.Call.Args) == 0 {
							continue
						}
						sl, _ := ap.Call.Args[0].(*ssa.Slice)
						if sl == nil || sl.High == nil {
							continue
						}
						prm, isP := eng.StripConv(sl.High).(*ssa.Parameter)
						if !isP || prm.Parent() != g {
							continue
						}
						rmCall = call
						if pi := eng.ParamIndex(prm); pi >= 0 && pi < len(call.Call.Args) {
							if k, isC := eng.ConstInt(call.Call.Args[pi]); isC && k == 0 {
								oldest = true
							}
						}
						return true
					}
					return false
				}, func(in ssa.Instruction) bool { return in == ssa.Instruction(eng.IfOf(b)) })
			}
			switch {
			case rmCall == nil:
				r.Bad("C08/CAP/order", cons, site, "cap loop body does not remove a message")
			case !before:
				r.Bad("C08/CAP/order", cons, site, "cap loop is not ordered before the append of the new message")
			case rel.Op != token.GEQ:
				r.Bad("C08/CAP/order", cons, site, "cap loop before the append must run while len(messages) >= cap; found `%s` (with `>` the mailbox ends one above the cap)", rel.Op)
			case !oldest:
				r.Bad("C08/CAP/order", cons, site, "cap eviction does not remove messages[0]: not oldest-first")
			default:
				r.Ok("C08/CAP/order", cons, site, "before the append, evicts messages[0] while len(messages) >= cap")
			}
		}
	}
	r.Floor("C08/CAP/order", "file cap loops", nFile, 1)
}

func sortFuncs(fs []*ssa.Function) {
	sort.Slice(fs, func(i, j int) bool { return eng.FuncName(fs[i]) < eng.FuncName(fs[j]) })
}

// fieldOfRecv: f is a field of the struct the method fn is declared on.
func fieldOfRecv(fn *ssa.Function, f *types.Var) bool {
	if fn.Signature.Recv() == nil {
		return false
	}
	t := fn.Signature.Recv().Type()
	if pt, ok := t.(*types.Pointer); ok {
		t = pt.Elem()
	}
	st, ok := t.Underlying().(*types.Struct)
	if !ok {
		return false
	}
	for i := 0; i < st.NumFields(); i++ {
		if st.Field(i) == f {
			return true
		}
	}
	return false
}
