package rules

import (
	"fmt"
	"go/token"
	"go/types"
	"sort"
	"strings"

	"golang.org/x/tools/go/ssa"

	"ibcheck/eng"
)

func init() { Registry["C03"] = checkC03 }

// envelopeKeywords are the SMTP verbs that, per RFC 5321 and the property, discard an open
// envelope. They are protocol constants read from the operands of the command comparisons.
var envelopeKeywords = map[string]bool{"RSET": true, "EHLO": true, "HELO": true}

// keywordEdges finds the CFG edges on which `cmd == "<KEYWORD>"` holds, in the session's
// functions.
type kwEdge struct {
	b  *ssa.BasicBlock
	k  int
	kw string
}

func keywordEdges(fns []*ssa.Function, kws map[string]bool) []kwEdge {
	var out []kwEdge
	for _, fn := range fns {
		for _, b := range fn.Blocks {
			if len(b.Succs) != 2 {
				continue
			}
			for k := 0; k < 2; k++ {
				r, ok := eng.EdgeRel(b, k)
				if !ok || r.Op != token.EQL {
					continue
				}
				s, isC := eng.ConstString(r.Y)
				if !isC {
					s, isC = eng.ConstString(r.X)
				}
				if isC && kws[s] {
					out = append(out, kwEdge{b, k, s})
				}
			}
		}
	}
	return out
}

func checkC03(c *Ctx) {
	r := c.R
	r.Explanation = "Decides the sequencing skeleton of the SMTP session by a typestate abstract interpretation of the session root and every handler it reaches (interprocedural, disjunctive configurations (Session.state, recipients empty/non-empty, final replies since the last input read), with branch refinement on fresh loads of Session.state and len(recipients); command strings are not tracked, so every command arm is possible in every state and the invariants hold for every command history): (D1) the transition to MAIL happens only from READY, recipients are appended only in MAIL, DATA is entered only from MAIL with a non-empty recipient list, Deliver is called only in DATA; (D2) the envelope reset clears sender and recipients and enters READY on all its paths; at every input read, state ∈ {GREET, READY, LOGIN, PASSWORD} implies the recipient list is empty; after a RSET/EHLO/HELO arm taken with an open envelope, and after Deliver, the next input read sees READY with no recipients (or the session is quitting); (D3) at every input read exactly one final reply was sent since the previous read (continuation lines not counted), so no branch is silent and none replies twice; (D4) Deliver is unreachable from the error edge of the DATA read (atomicity: shared with C01/D2)."
	r.NotDecided = []string{"liveness beyond the reply-count rule", "robustness of textproto/regexp on binary garbage", "timing and TLS handshakes", "panic-freedom of callees (enmime, stores): there is no recover at the session root", "index bounds of the command parser (see C03/PANIC/index if present)"}
	r.Assumptions = []string{"one Session object per session goroutine (Session is allocated only in the allocator called from the session root)", "reply classes are read from the constant prefix of the reply text"}
	r.Rule("C03/TS/sequence", "typestate: enterState(MAIL) only under state=READY; append(recipients) only under MAIL; enterState(DATA) only under MAIL with recipients non-empty; Deliver only under DATA with recipients non-empty; enterState(MAIL) is dominated by the store of Session.from")
	r.Rule("C03/TS/reset", "reset() clears from and recipients and enters READY on every path; at every input read state∈{GREET,READY,LOGIN,PASSWORD} ⇒ recipients empty; an envelope open when a RSET/EHLO/HELO arm is taken, or handed to Deliver, is gone (READY, no recipients) at the next input read")
	r.Rule("C03/REPLY/one-per-read", "typestate: at every input read the number of final replies sent since the previous read is exactly 1")
	r.Rule("C03/ATOMIC", "the Deliver call is unreachable from the error edge of the DATA read")
	m := c.smtp()
	if !m.ok {
		return
	}
	t := c.smtpTypestate(m)
	for _, u := range t.undec {
		r.Undecided("C03/TS/sequence", "model", "", "%s", u)
	}
	r.Count("typestate (function, entry-config) summaries", t.ts.FunctionsAnalysed())
	r.Count("typestate instruction steps", t.ts.Steps)
	r.Selftest["smtp-roles"] = m.describe()
	c.c03Sequence("C03", m, t)
	c.c03Reset("C03", m, t)
	c.c03ResetRestores("C03", m, t)
	c.c03Replies(m, t)
	c.c03Greeting(m, t)
	c.c03Index(m)
	// a command that is refused opens nothing: once MAIL (or DATA) has been entered, the reply
	// the client gets for that command is not a refusal. A MAIL answered 501 that has already
	// set the sender and the state leaves a transaction open that the client was told does not
	// exist — RCPT and DATA then go through with the refused sender
	r.Rule("C03/TS/refused-opens-nothing", "after enterState(MAIL) or enterState(DATA) the first reply of the command is not a 4xx/5xx refusal (followed through helper returns)")
	nEnt := 0
	ordE := map[string]int{}
	for _, fn := range m.fns {
		fn := fn
		eng.EachInstr(fn, func(in ssa.Instruction) {
			for _, stName := range []string{"MAIL", "DATA"} {
				if !m.entersState(stName)(in) {
					continue
				}
				nEnt++
				cons := siteCons(c.P, in, ordE, "enter-"+stName)
				if bad := c.firstReplyRefusal(m, in); bad != nil {
					r.Bad("C03/TS/refused-opens-nothing", cons, c.P.InstrPos(in), "state %s is entered here and the command can still be answered with the refusal at %s: the client is told the command failed while the session goes on as if it had succeeded", stName, c.P.InstrPos(bad))
				} else {
					r.Ok("C03/TS/refused-opens-nothing", cons, c.P.InstrPos(in), "no refusal reply is reachable after the state is entered")
				}
			}
		})
	}
	r.Floor("C03/TS/refused-opens-nothing", "enterState(MAIL/DATA) sites", nEnt, 2)
	r.Floor("C03/SESSION/own-connection", "go statements in loops of the SMTP server package", c.ownConnection("C03/SESSION/own-connection", "pkg/server/smtp"), 1)
	// one command line is one read: a reader primitive that hands out a long line in pieces
	// must be re-assembled, or the tail of the line is executed as further commands
	r.Rule("C03/LINE/whole", "the command-line read returns whole lines: textproto.Reader.ReadLine / bufio ReadString / ReadBytes, or bufio.Reader.ReadLine with its isPrefix result consulted (ReadSlice, which fails on long lines, is not accepted)")
	{
		n := 0
		eng.EachInstr(m.readLine, func(in ssa.Instruction) {
			call, ok := in.(*ssa.Call)
			if !ok {
				return
			}
			name := eng.CalleeName(call.Common())
			cons := "line-read@" + shortFn(m.readLine)
			switch name {
			case "(*net/textproto.Reader).ReadLine", "(*net/textproto.Reader).ReadLineBytes", "(*bufio.Reader).ReadString", "(*bufio.Reader).ReadBytes":
				n++
				r.Ok("C03/LINE/whole", cons, c.P.InstrPos(in), "%s returns the whole line whatever its length", name)
			case "(*bufio.Reader).ReadLine":
				n++
				used := false
				if pre := extractOf(call, 1); pre != nil && pre.Referrers() != nil {
					for _, ref := range *pre.Referrers() {
						if _, isDbg := ref.(*ssa.DebugRef); !isDbg {
							used = true
						}
					}
				}
				if used {
					r.Ok("C03/LINE/whole", cons, c.P.InstrPos(in), "bufio.Reader.ReadLine with its isPrefix result consulted")
				} else {
					r.Bad("C03/LINE/whole", cons, c.P.InstrPos(in), "bufio.Reader.ReadLine returns at most one buffer (4096 bytes) per call and its isPrefix result is discarded: a longer command line is executed in pieces — the first piece as one command, every further piece of its argument as a command of its own, each with its own reply (a NOOP with a long argument can smuggle in RCPT or RSET)")
				}
			case "(*bufio.Reader).ReadSlice":
				n++
				r.Bad("C03/LINE/whole", cons, c.P.InstrPos(in), "bufio.Reader.ReadSlice fails with ErrBufferFull on a line longer than the buffer and leaves its tail to be read as the next command")
			}
		})
		r.Floor("C03/LINE/whole", "line-reading calls in the command-line reader", n, 1)
	}
	// a failed producer's nil result is never used
	r.Rule("C03/PANIC/nil-result", "in the SMTP session code every use of the value of a (value, error) call as a method receiver or field base — direct, deferred or through a helper — lies where the error is known nil")
	{
		nBad := 0
		ordN := map[string]int{}
		nProd := c.nilResultUses(m.fns, func(use ssa.Instruction, producer *ssa.Call, what string) {
			nBad++
			r.Bad("C03/PANIC/nil-result", siteCons(c.P, use, ordN, "use"), c.P.InstrPos(use), "the result of %s (%s) is used where the call may have failed: %s, and on failure the result is nil — the session goroutine panics and, having no recover, ends the server", eng.CalleeName(producer.Common()), c.P.InstrPos(producer), what)
		})
		if nBad == 0 {
			r.Ok("C03/PANIC/nil-result", "session-code", c.P.Pos(m.root.Pos()), "%d (value, error) producers in the SMTP package; every receiver/field use of their value is on the err == nil side", nProd)
		}
		r.Floor("C03/PANIC/nil-result", "(value, error) producers in pkg/server/smtp", nProd, 1)
	}
	c.c01Atomic("C03/ATOMIC", m)
	c.c03ReadError("C03/ATOMIC/read-error", m)
	c.dataReadErrorVerdict("C03/ATOMIC/read-error-verdict", m)
	c.c03OneReader(m)
}

// c03OneReader: a session reads its connection through one buffered reader, created with the
// session. A second buffer over the same connection (for the DATA block, say) reads ahead past
// what it was created for: command lines that arrived with the end of the data are swallowed
// with it (no reply, the client waits), and bytes the first reader had already buffered never
// reach the second (a partial message is stored and the rest is run as commands).
func (c *Ctx) c03OneReader(m *smtpModel) {
	r, p := c.R, c.P
	r.Rule("C03/READER/one-buffer", "in the SMTP package buffered readers (bufio.NewReader*, textproto.NewReader, textproto.NewConn) are created only where the Session is allocated, or to replace the Session's reader field (STARTTLS)")
	var bad []string
	nCtor := 0
	for _, fn := range m.fns {
		fn := fn
		allocates := false
		var made []ssa.Instruction
		eng.EachInstr(fn, func(in ssa.Instruction) {
			switch x := in.(type) {
			case *ssa.Alloc:
				if pt, ok := x.Type().(*types.Pointer); ok && types.Identical(pt.Elem(), m.sess) {
					allocates = true
				}
			case *ssa.Call:
				switch eng.CalleeName(x.Common()) {
				case "bufio.NewReader", "bufio.NewReaderSize", "bufio.NewReadWriter", "net/textproto.NewReader", "net/textproto.NewConn":
					made = append(made, in)
				}
			}
		})
		if allocates {
			nCtor += len(made)
			continue
		}
		for _, in := range made {
			// replacing the session's reader (after STARTTLS the connection is a new one) is
			// not a second reader: the value goes into a field of the Session
			replaces := false
			if v, ok := in.(ssa.Value); ok && v.Referrers() != nil {
				for _, ref := range *v.Referrers() {
					if st, ok := ref.(*ssa.Store); ok && st.Val == v {
						if fa, ok := st.Addr.(*ssa.FieldAddr); ok {
							if pt, ok := fa.X.Type().(*types.Pointer); ok && types.Identical(pt.Elem(), m.sess) {
								replaces = true
							}
						}
					}
				}
			}
			if replaces {
				nCtor++
				continue
			}
			bad = append(bad, eng.CalleeName(in.(*ssa.Call).Common())+" at "+p.InstrPos(in)+" in "+shortFn(fn))
		}
	}
	sort.Strings(bad)
	if len(bad) > 0 {
		r.Bad("C03/READER/one-buffer", "session-code", "", "a second buffered reader is created over the session's input: %s — whatever it reads ahead beyond its purpose (the commands after the end of DATA) is lost, and what the session's own reader had already buffered never reaches it", strings.Join(bad, "; "))
	} else {
		r.Ok("C03/READER/one-buffer", "session-code", "", "%d buffered reader(s), all created where the Session is allocated", nCtor)
	}
	r.Floor("C03/READER/one-buffer", "buffered readers created with the session", nCtor, 1)
}

// c03ReadError: inside the DATA read itself a failed read (the peer went away before the final
// dot) must surface as an error; otherwise the bytes read so far are delivered.
func (c *Ctx) c03ReadError(rule string, m *smtpModel) {
	r := c.R
	r.Rule(rule, "in the DATA-read function no return reachable on the error edge of the bulk read (io.ReadAll/ReadFull/Copy/ReadDotBytes/...) reports success")
	n := c.errNotSwallowed(rule, []*ssa.Function{m.dataRead}, func(name string) bool {
		switch name {
		case "io.ReadAll", "io.ReadFull", "io.ReadAtLeast", "io.Copy", "io.CopyN", "io/ioutil.ReadAll",
			"(*net/textproto.Reader).ReadDotBytes", "(*net/textproto.Reader).ReadDotLines", "(*bytes.Buffer).ReadFrom":
			return true
		}
		return false
	}, false, "a connection that ends in the middle of DATA leaves a partial (or empty) message in every accepted recipient's mailbox")
	r.Floor(rule, "bulk reads in the DATA-read function", n, 1)
}

func (c *Ctx) c03Sequence(pfx string, m *smtpModel, t *smtpTS) {
	r, p := c.R, c.P
	type req struct {
		kind  string
		ok    func(cfg eng.TSConfig) bool
		need  string
		floor int
	}
	reqs := []req{
		{"enter:MAIL", func(cfg eng.TSConfig) bool { return cfg.A == m.states["READY"] }, "state=READY", 1},
		{"recips:append", func(cfg eng.TSConfig) bool { return cfg.A == m.states["MAIL"] }, "state=MAIL", 1},
		{"enter:DATA", func(cfg eng.TSConfig) bool { return cfg.A == m.states["MAIL"] && cfg.B == rcNonEmpty }, "state=MAIL with recipients non-empty", 1},
		{"deliver", func(cfg eng.TSConfig) bool { return cfg.A == m.states["DATA"] && cfg.B == rcNonEmpty }, "state=DATA with recipients non-empty", 1},
	}
	ord := map[string]int{}
	for _, q := range reqs {
		sites := t.bySite(q.kind)
		r.Floor(pfx+"/TS/sequence", q.kind+" sites reached", len(sites), q.floor)
		for _, in := range sortedSites(sites) {
			evs := sites[in]
			var bad []tsEvent
			for _, e := range evs {
				if !q.ok(e.cfg) {
					bad = append(bad, e)
				}
			}
			cons := siteCons(p, in, ord, q.kind)
			if len(bad) > 0 {
				r.Bad(pfx+"/TS/sequence", cons, p.InstrPos(in), "%s is reachable under %s; required: %s", q.kind, t.cfgSet(bad), q.need)
			} else {
				r.Ok(pfx+"/TS/sequence", cons, p.InstrPos(in), "reached only under: %s", t.cfgSet(evs))
			}
		}
	}
	// enterState(MAIL) dominated by a non-nil store of from in the same function
	for _, in := range sortedSites(t.bySite("enter:MAIL")) {
		dom := false
		for _, e := range t.events["from:set"] {
			if e.in.Parent() == in.Parent() && eng.Dominates(e.in, in) {
				dom = true
			}
		}
		cons := "from-before-MAIL@" + shortFn(in.Parent())
		r.Check(dom, pfx+"/TS/sequence", cons, p.InstrPos(in), "Session.from is assigned before the transition to MAIL", "the transition to MAIL is not dominated by the assignment of Session.from: a transaction can run with the previous (or no) sender")
	}
}

func (c *Ctx) c03Reset(pfx string, m *smtpModel, t *smtpTS) {
	r, p := c.R, c.P
	// structural: reset body
	clearsField := func(f string) eng.Pred {
		return func(in ssa.Instruction) bool {
			st, ok := in.(*ssa.Store)
			if ok && m.zeroesEnvelope(st) {
				return true // the whole envelope record replaced by its zero value
			}
			if !ok || !eng.IsNilConst(st.Val) {
				return false
			}
			fa, ok := st.Addr.(*ssa.FieldAddr)
			if !ok {
				return false
			}
			fld := eng.FieldOfAddr(fa)
			return (f == "from" && eng.SameField(fld, m.fFrom)) || (f == "recips" && eng.SameField(fld, m.fRecips))
		}
	}
	for _, w := range []struct {
		name string
		pred eng.Pred
	}{{"from=nil", clearsField("from")}, {"recipients=nil", clearsField("recips")}, {"enterState(READY)", m.entersState("READY")}} {
		ret := (&eng.Search{Target: eng.IsReturn, Avoid: w.pred}).FromEntry(m.reset)
		r.Check(ret == nil, pfx+"/TS/reset", "reset-body:"+w.name, p.Pos(m.reset.Pos()), "every path through the envelope reset performs "+w.name, "the envelope reset can return without "+w.name+": the next transaction inherits part of the previous envelope")
	}
	// invariant at reads
	quiet := map[int64]bool{m.states["GREET"]: true, m.states["READY"]: true}
	if v, ok := m.states["LOGIN"]; ok {
		quiet[v] = true
	}
	if v, ok := m.states["PASSWORD"]; ok {
		quiet[v] = true
	}
	reads := t.bySite("read")
	r.Floor(pfx+"/TS/reset", "input read sites reached", len(reads), 1)
	ord := map[string]int{}
	for _, in := range sortedSites(reads) {
		var bad []tsEvent
		for _, e := range reads[in] {
			if quiet[e.cfg.A] && e.cfg.B != rcEmpty {
				bad = append(bad, e)
			}
		}
		cons := siteCons(p, in, ord, "envelope-at-read")
		if len(bad) > 0 {
			r.Bad(pfx+"/TS/reset", cons, p.InstrPos(in), "an input read is reachable with a non-empty recipient list outside a transaction (%s): recipients of an earlier MAIL leak into the next transaction", t.cfgSet(bad))
		} else {
			r.Ok(pfx+"/TS/reset", cons, p.InstrPos(in), "configurations at this read: %s", t.cfgSet(reads[in]))
		}
	}
	// enterState(READY) outside reset only with empty recipients
	ord = map[string]int{}
	for _, in := range sortedSites(t.bySite("enter:READY")) {
		if in.Parent() == m.reset {
			continue
		}
		var bad []tsEvent
		for _, e := range t.bySite("enter:READY")[in] {
			if e.cfg.B != rcEmpty {
				bad = append(bad, e)
			}
		}
		cons := siteCons(p, in, ord, "enter-READY")
		if len(bad) > 0 {
			r.Bad(pfx+"/TS/reset", cons, p.InstrPos(in), "READY is entered without the reset while recipients may be non-empty (%s)", t.cfgSet(bad))
		} else {
			r.Ok(pfx+"/TS/reset", cons, p.InstrPos(in), "READY entered outside reset only with an empty recipient list")
		}
	}
	// discard obligations: from each keyword edge / deliver, with an open envelope, the next
	// read must see READY+empty. Decided by re-running the typestate from the edge target.
	c.c03Discard(pfx, m, t)
}

// c03Discard: for every configuration reaching a keyword edge with an open envelope
// (state=MAIL or recipients non-empty) and for every Deliver, every path to the next input
// read (within the handling function and its callers up to the session loop) must pass the
// envelope reset, or enter QUIT.
func (c *Ctx) c03Discard(pfx string, m *smtpModel, t *smtpTS) {
	r, p := c.R, c.P
	edges := keywordEdges(m.fns, envelopeKeywords)
	r.Floor(pfx+"/TS/reset", "RSET/EHLO/HELO comparison edges", len(edges), 1)
	isRead := func(in ssa.Instruction) bool {
		call, ok := in.(*ssa.Call)
		if !ok {
			return false
		}
		g := eng.StaticCallee(call.Common())
		return g == m.readLine || g == m.dataRead
	}
	resetOrQuit := eng.Or(m.isReset, m.entersState("QUIT"))
	ord := map[string]int{}
	for _, e := range edges {
		fn := e.b.Parent()
		// configurations at the branch
		iff := eng.IfOf(e.b)
		open := false
		var cfgs []tsEvent
		var openCfgs []eng.TSConfig
		for _, cfg := range t.ts.ConfigsAt(iff) {
			cfgs = append(cfgs, tsEvent{cfg: cfg})
			if cfg.A == m.states["MAIL"] || cfg.B != rcEmpty {
				open = true
				openCfgs = append(openCfgs, cfg)
			}
		}
		// only branches that an open-envelope configuration can take matter (the state and
		// the recipient list do not change between the arm and the reset)
		isOpen := func(cfg eng.TSConfig) bool { return cfg.A == m.states["MAIL"] || cfg.B != rcEmpty }
		feasible := func(b *ssa.BasicBlock, k int) bool {
			if len(b.Succs) != 2 {
				return true
			}
			// a branch on a boolean parameter of a helper (resetOn(verb, clear)): feasible only
			// if some call site that an open envelope can reach passes that truth value
			if v, pol, ok := eng.CondTruth(b, k); ok {
				if prm, isP := v.(*ssa.Parameter); isP {
					g := b.Parent()
					pi := eng.ParamIndex(prm)
					sites := p.StaticCallSites(g)
					possible := len(sites) == 0 || pi < 0
					for _, cs := range sites {
						if possible || pi >= len(cs.Args) {
							possible = true
							break
						}
						arg := cs.Args[pi]
						if bv, isC := eng.ConstBool(arg); isC {
							possible = possible || bv == pol
							continue
						}
						for _, cfg := range t.ts.ConfigsAt(cs.Instr.(ssa.Instruction)) {
							if !isOpen(cfg) {
								continue
							}
							if val, known := t.EvalBool(arg, cfg); !known || val == pol {
								possible = true
							}
						}
					}
					if !possible {
						return false
					}
				}
			}
			for _, cfg := range openCfgs {
				if _, ok := t.Refine(b, k, cfg); ok {
					return true
				}
			}
			return false
		}
		cons := siteCons(p, iff, ord, "discard:"+e.kw)
		if len(cfgs) == 0 {
			r.Undecided(pfx+"/TS/reset", cons, p.InstrPos(iff), "comparison with %q not reached by the typestate analysis", e.kw)
			continue
		}
		if !open {
			r.Ok(pfx+"/TS/reset", cons, p.InstrPos(iff), "%s arm is only reached with no open envelope (%s)", e.kw, t.cfgSet(cfgs))
			continue
		}
		// structural: from the arm, a return or read is reachable without reset → violation
		miss := (&eng.Search{Target: eng.Or(eng.IsReturnOf(fn), isRead), Avoid: resetOrQuit, Deep: true, Edge: feasible}).FromBlockStart(e.b.Succs[e.k])
		if miss != nil {
			r.Bad(pfx+"/TS/reset", cons, p.InstrPos(iff), "the %s arm can be taken with an open envelope (%s) and reaches %s without the envelope reset: the envelope survives %s", e.kw, t.cfgSet(cfgs), p.InstrPos(miss), e.kw)
		} else {
			r.Ok(pfx+"/TS/reset", cons, p.InstrPos(iff), "%s arm in %s always passes the envelope reset (reached under %s)", e.kw, shortFn(fn), t.cfgSet(cfgs))
		}
	}
	for _, site := range m.deliverSites {
		in := site.(ssa.Instruction)
		miss := (&eng.Search{Target: eng.Or(eng.IsReturnOf(in.Parent()), isRead), Avoid: resetOrQuit, Deep: true}).After(in)
		cons := "discard:after-Deliver@" + shortFn(in.Parent())
		if miss != nil {
			r.Bad(pfx+"/TS/reset", cons, p.InstrPos(in), "after Deliver a path reaches %s without the envelope reset: the next DATA would deliver to the same recipients again", p.InstrPos(miss))
		} else {
			r.Ok(pfx+"/TS/reset", cons, p.InstrPos(in), "every path after Deliver passes the envelope reset")
		}
	}
}

func (c *Ctx) c03Replies(m *smtpModel, t *smtpTS) {
	r, p := c.R, c.P
	reads := t.bySite("read")
	ord := map[string]int{}
	for _, in := range sortedSites(reads) {
		counts := map[int64][]tsEvent{}
		for _, e := range reads[in] {
			counts[e.cfg.C] = append(counts[e.cfg.C], e)
		}
		cons := siteCons(p, in, ord, "replies-before-read")
		var probs []string
		if evs, ok := counts[0]; ok {
			probs = append(probs, "no reply was sent since the previous input (a silent branch; the client waits forever) under "+t.cfgSet(evs))
		}
		if evs, ok := counts[2]; ok {
			probs = append(probs, "two or more final replies were sent for one input (e.g. a missing return after an error reply) under "+t.cfgSet(evs))
		}
		sort.Strings(probs)
		if len(probs) > 0 {
			r.Bad("C03/REPLY/one-per-read", cons, p.InstrPos(in), "%s", strings.Join(probs, "; "))
		} else {
			r.Ok("C03/REPLY/one-per-read", cons, p.InstrPos(in), "exactly one final reply precedes this read in every reachable configuration (%d)", len(reads[in]))
		}
	}
	nReply := len(t.bySite("reply"))
	r.Floor("C03/REPLY/one-per-read", "reply sites reached", nReply, 1)
	// unknown reply classes make the count meaningless
	var unk []string
	for in, evs := range t.bySite("reply") {
		if evs[0].note == "?" {
			unk = append(unk, p.InstrPos(in))
		}
	}
	sort.Strings(unk)
	// dynamic codes (extension-provided "%03d %s") are final replies: counted as one. Report
	// how many, for the evidence.
	r.Count("reply sites with a non-constant code (counted as final)", len(unk))
	_ = fmt.Sprintf
}

// c01Atomic: Deliver unreachable from the DATA read's error edge (C01/D2 = C03/D4).
func (c *Ctx) c01Atomic(rule string, m *smtpModel) {
	r, p := c.R, c.P
	for _, orig := range m.deliverSites {
		cons := "deliver-after-data@" + shortFn(orig.Parent())
		// a delivery extracted into a helper is judged at the helper's call in the function
		// that reads the DATA block
		site, gcall, ok := m.liftToDataReader(p, orig)
		if !ok {
			r.Bad(rule, cons, p.InstrPos(orig), "Deliver is called in a function that neither reads the DATA block nor is called (through a single call chain) from the function that does: the guard between a failed read and delivery cannot be established")
			continue
		}
		_, inner := m.readVia(site.Parent())
		isDeliver := func(in ssa.Instruction) bool { return in == site.(ssa.Instruction) }
		if !eng.Dominates(gcall, site.(ssa.Instruction)) {
			r.Bad(rule, cons, p.InstrPos(site), "the DATA read does not dominate Deliver")
			continue
		}
		if !m.readSucceededAt(gcall, inner, site.Block()) {
			r.Bad(rule, cons, p.InstrPos(site), "Deliver is reachable when the DATA read failed (no dominating `err == nil` edge of the read's error): a cut connection would store a partial message")
			continue
		}
		// content argument derives from the read's data result
		_ = isDeliver
		r.Ok(rule, cons, p.InstrPos(site), "Deliver is dominated by the success edge of the DATA read at %s", p.InstrPos(gcall))
	}
}

// c03Greeting: the session leaves GREET for a working state only through a HELO/EHLO arm.
func (c *Ctx) c03Greeting(m *smtpModel, t *smtpTS) {
	r, p := c.R, c.P
	r.Rule("C03/TS/greeting", "typestate: a state transition executed while state=GREET goes to GREET or QUIT, unless a cmd==\"HELO\"/\"EHLO\" arm was taken since the last input read: MAIL is never reachable without a greeting")
	n := 0
	ord := map[string]int{}
	for name, k := range m.states {
		if name == "GREET" || name == "QUIT" {
			continue
		}
		_ = k
		sites := t.bySite("enter:" + name)
		for _, in := range sortedSites(sites) {
			var bad []tsEvent
			fromGreet := false
			for _, e := range sites[in] {
				if e.cfg.A != m.states["GREET"] {
					continue
				}
				fromGreet = true
				if e.cfg.D != 1 {
					bad = append(bad, e)
				}
			}
			if !fromGreet {
				continue
			}
			n++
			cons := siteCons(p, in, ord, "leave-GREET:"+name)
			if len(bad) > 0 {
				r.Bad("C03/TS/greeting", cons, p.InstrPos(in), "enterState(%s) is reachable with state=GREET on a path that took no HELO/EHLO arm since the last read: a command other than a greeting (e.g. RSET as the first command) makes the session ready, and MAIL is then accepted from a client that never greeted", name)
			} else {
				r.Ok("C03/TS/greeting", cons, p.InstrPos(in), "reached from GREET only inside a HELO/EHLO arm")
			}
		}
	}
	r.Floor("C03/TS/greeting", "transitions out of GREET", n, 1)
}

// sessionFieldWritten: the Session field an instruction writes — a store to the field, or an
// update of the map / slice element / record the field holds.
func (m *smtpModel) sessionFieldWritten(in ssa.Instruction) *types.Var {
	ofSession := func(fa *ssa.FieldAddr) bool {
		pt, ok := fa.X.Type().Underlying().(*types.Pointer)
		return ok && types.Identical(pt.Elem(), m.sess)
	}
	fieldOfLoad := func(v ssa.Value) *types.Var {
		u, ok := v.(*ssa.UnOp)
		if !ok || u.Op != token.MUL {
			return nil
		}
		if fa, ok := u.X.(*ssa.FieldAddr); ok && ofSession(fa) {
			return eng.FieldOfAddr(fa)
		}
		return nil
	}
	switch x := in.(type) {
	case *ssa.Store:
		switch a := x.Addr.(type) {
		case *ssa.FieldAddr:
			if _, fresh := a.X.(*ssa.Alloc); fresh {
				return nil
			}
			if ofSession(a) {
				return eng.FieldOfAddr(a)
			}
			// a field of a record Session holds by value (s.env.from)
			if inner, ok := a.X.(*ssa.FieldAddr); ok && ofSession(inner) {
				return eng.FieldOfAddr(inner)
			}
		case *ssa.IndexAddr:
			return fieldOfLoad(a.X)
		}
	case *ssa.MapUpdate:
		return fieldOfLoad(x.Map)
	case *ssa.Call:
		if b, ok := x.Call.Value.(*ssa.Builtin); ok && (b.Name() == "delete" || b.Name() == "clear") && len(x.Call.Args) > 0 {
			return fieldOfLoad(x.Call.Args[0])
		}
	}
	return nil
}

// c03ResetRestores: whatever a transaction changes in the session, the envelope reset undoes.
// Every Session field that is written while a transaction is open (state MAIL or DATA) —
// directly, or through the map, slice or record it holds — is part of the transaction's state
// (a seen-set of recipients, a declared size, a counter); if the reset does not write it on
// every path, the next transaction on the same connection starts with what the previous one
// left there, whether it was delivered, refused or reset.
func (c *Ctx) c03ResetRestores(pfx string, m *smtpModel, t *smtpTS) {
	r, p := c.R, c.P
	rule := pfx + "/TS/reset-restores"
	r.Rule(rule, "typestate: every Session field written (itself, or the map/slice/record it holds) under state MAIL or DATA, or by the activation that goes on to enter MAIL, is written by the envelope reset on every path")
	open := map[int64]bool{m.states["MAIL"]: true, m.states["DATA"]: true}
	type wr struct {
		f    *types.Var
		site ssa.Instruction
	}
	var fields []wr
	seen := map[*types.Var]bool{}
	for _, fn := range m.fns {
		fn := fn
		eng.EachInstr(fn, func(in ssa.Instruction) {
			f := m.sessionFieldWritten(in)
			if f == nil || seen[f] || eng.SameField(f, m.fState) {
				return
			}
			for _, cfg := range t.ts.ConfigsAt(in) {
				if open[cfg.A] {
					seen[f] = true
					fields = append(fields, wr{f, in})
					return
				}
			}
			// written on the way into the transaction: the activation that stores it goes on
			// to enter MAIL (the sender, a declared size)
			if len(t.ts.ConfigsAt(in)) > 0 && (&eng.Search{Target: m.entersState("MAIL")}).After(in) != nil {
				seen[f] = true
				fields = append(fields, wr{f, in})
			}
		})
	}
	sort.Slice(fields, func(i, j int) bool { return fields[i].f.Name() < fields[j].f.Name() })
	for _, w := range fields {
		w := w
		writes := func(in ssa.Instruction) bool {
			if st, ok := in.(*ssa.Store); ok && m.zeroesEnvelope(st) && m.fHolder != nil && eng.SameField(w.f, m.fHolder) {
				return true
			}
			return eng.SameField(m.sessionFieldWritten(in), w.f)
		}
		ret := (&eng.Search{Target: eng.IsReturn, Avoid: writes, Deep: true}).FromEntry(m.reset)
		r.Check(ret == nil, rule, "field:"+w.f.Name(), p.InstrPos(w.site),
			"Session."+w.f.Name()+" is written while a transaction is open and the envelope reset writes it on every path",
			"Session."+w.f.Name()+" is written while a transaction is open ("+p.InstrPos(w.site)+") but the envelope reset "+shortFn(m.reset)+" can return without writing it: what one transaction leaves there (after delivery, refusal or RSET) is inherited by the next transaction on the same connection")
	}
	r.Floor(rule, "Session fields written under MAIL/DATA", len(fields), 1)
}
