package rules

import (
	"go/token"
	"go/types"
	"sort"
	"strings"

	"golang.org/x/tools/go/ssa"

	"ibcheck/eng"
)

func init() { Registry["C19"] = checkC19 }

// wgCall matches (*sync.WaitGroup).<name> on a load of field f.
func wgCall(cc *ssa.CallCommon, name string, f *types.Var) bool {
	if cc == nil || eng.CalleeName(cc) != "(*sync.WaitGroup)."+name || len(cc.Args) == 0 {
		return false
	}
	return eng.SameField(eng.LoadedField(cc.Args[0]), f)
}

func checkC19(c *Ctx) {
	r := c.R
	r.Explanation = "Decides the shutdown skeleton by dominance and channel-operation inventory: (D1) in both servers every go statement that starts a session is dominated, in the spawning goroutine, by an Add on the server's WaitGroup, and the spawned function defers the matching Done before any return (an Add executed inside the new goroutine races with Drain's Wait); (D2) Drain waits on that WaitGroup and main reaches both Drains and RetentionScanner.Join on every path after the services are started; (D3) each server's Start closes its listener on every path after ctx.Done(), and the accept loop returns without reporting a failure when accept fails and ctx is done; (D4) no channel of the message hub that producers send on is closed at cancellation (producers are sessions that are still draining); (D5) the retention scanner's loop observes ctx.Done() at every blocking point and closes its shutdown channel on every exit (shared with C12)."
	r.NotDecided = []string{"timing of drains", "TCP behaviour after the listener is closed", "in-flight TLS handshakes", "that an open session actually completes its dialogue (sessions do not observe ctx: checked only as 'no ctx parameter reaches the session root')"}
	r.Assumptions = []string{"sync.WaitGroup semantics: Add must happen-before Wait to be counted"}
	r.Rule("C19/WG/add-before-go", "at every `go` that starts a session, wg.Add dominates the go statement in the spawning function and the spawned function defers wg.Done on every path")
	r.Rule("C19/DRAIN", "Server.Drain calls wg.Wait; main calls smtp Drain, pop3 Drain and RetentionScanner.Join on every path from services.Start to return")
	r.Rule("C19/LISTENER", "Start: every path from the receive on ctx.Done() to return closes the listener; serve: when Accept fails and ctx.Done() is ready the loop returns without sending on notify")
	r.Rule("C19/HUB", "no channel owned by msghub.Hub has both a close site and send sites in other functions: Dispatch/Delete run in goroutines of sessions that are still draining after cancel, and a send on the closed operation queue panics the process")
	r.Rule("C19/RETENTION", "RetentionScanner.Start: every blocking operation is a select with a ctx.Done() arm that leaves the loop; every exit closes retentionShutdown; Join receives from it")

	for _, srv := range []struct{ rel, name string }{{"pkg/server/smtp", "smtp"}, {"pkg/server/pop3", "pop3"}} {
		c.c19Server(srv.rel, srv.name)
	}
	c.c19Main()
	c.c19Hub()
	c.retentionCancel("C19/RETENTION")
}

func (c *Ctx) c19Server(rel, name string) {
	r, p := c.R, c.P
	fWG := p.Field(rel, "Server", "wg")
	fLis := p.Field(rel, "Server", "listener")
	fNotify := p.Field(rel, "Server", "notify")
	newSession := p.Func(rel, "NewSession")
	start := p.Method(rel, "Server", "Start")
	drain := p.Method(rel, "Server", "Drain")
	if fWG == nil || fLis == nil || fNotify == nil || newSession == nil || start == nil || drain == nil {
		return
	}
	// session root = caller of NewSession
	var root *ssa.Function
	for _, e := range p.CallersOf(newSession) {
		root = e.Caller.Func
	}
	if root == nil {
		r.Fatal("UNRESOLVED anchor=%s session root", name)
		return
	}
	fns := pkgFuncs(p, rel)
	nGo := 0
	var spawned []*ssa.Function // what the session-starting go statements run (the root, or a wrapper around it)
	for _, fn := range fns {
		fn := fn
		eng.EachInstr(fn, func(in ssa.Instruction) {
			g, ok := in.(*ssa.Go)
			if !ok {
				return
			}
			callee := eng.StaticCallee(g.Common())
			if callee == nil {
				return
			}
			if !reachesSync(callee, root) {
				return // e.g. `go s.serve(ctx)`: reaches the root only through another go statement
			}
			nGo++
			spawned = append(spawned, callee)
			cons := name + ":session-spawn@" + shortFn(fn)
			site := p.InstrPos(in)
			// Add dominates go
			var add ssa.Instruction
			eng.EachInstr(fn, func(x ssa.Instruction) {
				if call, ok := x.(*ssa.Call); ok && wgCall(call.Common(), "Add", fWG) && eng.Dominates(x, in) {
					add = x
				}
			})
			if add == nil {
				r.Bad("C19/WG/add-before-go", cons, site, "no wg.Add dominates the go statement in %s: the session is counted (if at all) only once its goroutine runs, so a Drain that starts in between returns while the session is alive and main exits under it", shortFn(fn))
				return
			}
			// the Add must be inside the same loop iteration: no path from Add to go passing another go
			// spawned function defers Done before any return
			var deferDone ssa.Instruction
			for _, d := range eng.Defers(callee) {
				if wgCall(d.Common(), "Done", fWG) {
					deferDone = d
				}
				if h := eng.StaticCallee(d.Common()); h != nil {
					eng.EachInstr(h, func(x ssa.Instruction) {
						if call, ok := x.(*ssa.Call); ok && wgCall(call.Common(), "Done", fWG) {
							deferDone = d
						}
					})
				}
			}
			if deferDone == nil {
				r.Bad("C19/WG/add-before-go", cons, site, "the spawned function %s does not defer wg.Done: Drain never returns", shortFn(callee))
				return
			}
			if ret := (&eng.Search{Target: eng.IsExit, Avoid: func(x ssa.Instruction) bool { return x == deferDone }}).FromEntry(callee); ret != nil && !eng.IsRecoverBlock(ret.Block()) {
				r.Bad("C19/WG/add-before-go", cons, site, "the spawned function %s can exit at %s before deferring wg.Done", shortFn(callee), p.InstrPos(ret))
				return
			}
			// balance: the spawned function itself must not Add without its own Done (startSession's own pair is fine)
			r.Ok("C19/WG/add-before-go", cons, site, "wg.Add at %s dominates the go; %s defers wg.Done before any exit", p.InstrPos(add), shortFn(callee))
		})
	}
	r.Floor("C19/WG/add-before-go", name+" session spawns", nGo, 1)
	// work a session hands to another goroutine must be counted too: Drain (and then main)
	// returns when the counted goroutines are done
	var sessFns []*ssa.Function
	for fn := range p.SyncReach(root) {
		if eng.FuncPkgPath(fn) == eng.Mod+"/"+rel {
			sessFns = append(sessFns, fn)
		}
	}
	sortFuncs(sessFns)
	detached := 0
	for _, fn := range sessFns {
		fn := fn
		eng.EachInstr(fn, func(in ssa.Instruction) {
			if _, ok := in.(*ssa.Go); !ok {
				return
			}
			counted := false
			eng.EachInstr(fn, func(x ssa.Instruction) {
				if call, ok := x.(*ssa.Call); ok && wgCall(call.Common(), "Add", fWG) && eng.Dominates(x, in) {
					counted = true
				}
			})
			if !counted {
				detached++
				r.Bad("C19/WG/add-before-go", name+":detached-go@"+shortFn(fn), p.InstrPos(in), "a session starts a goroutine the server's WaitGroup does not count: the session unwinds and Drain returns while that work is still running, so shutdown can cut it off")
			}
		})
	}
	if detached == 0 {
		r.Ok("C19/WG/add-before-go", name+":no-detached-go", p.Pos(root.Pos()), "no uncounted go statement in the %d functions a session runs", len(sessFns))
	}
	{
		// the goroutine a session runs in starts at the spawned function, which may be a wrapper
		// around the session root
		all := append([]*ssa.Function{}, sessFns...)
		have := map[*ssa.Function]bool{}
		for _, fn := range all {
			have[fn] = true
		}
		for fn := range p.SyncReach(spawned...) {
			if eng.FuncPkgPath(fn) == eng.Mod+"/"+rel && !have[fn] {
				have[fn] = true
				all = append(all, fn)
			}
		}
		for _, fn := range spawned {
			if !have[fn] {
				have[fn] = true
				all = append(all, fn)
			}
		}
		sortFuncs(all)
		c.c19SessionCtx(rel, name, start, root, all)
	}
	// every Add in the package is balanced by a deferred Done in the same function or precedes a go
	// D2 drain
	waits := 0
	eng.EachInstr(drain, func(in ssa.Instruction) {
		if call, ok := in.(*ssa.Call); ok && wgCall(call.Common(), "Wait", fWG) {
			waits++
		}
	})
	r.Check(waits == 1, "C19/DRAIN", name+":Drain", p.Pos(drain.Pos()), "Drain waits on the session WaitGroup", "Drain does not wait on the session WaitGroup: it returns while sessions are open")
	// whatever else Drain waits for must be signalled on every way out of Start: a channel that
	// Start closes only at the end of a clean run leaves Drain — and with it main's shutdown
	// sequence — blocked for ever after a start that failed (the address could not be bound)
	{
		nRecv := 0
		eng.EachInstr(drain, func(in ssa.Instruction) {
			u, ok := in.(*ssa.UnOp)
			if !ok || u.Op != token.ARROW {
				return
			}
			f := eng.LoadedField(u.X)
			if f == nil {
				return
			}
			nRecv++
			cons := name + ":Drain-waits:" + f.Name()
			isClose := func(x ssa.Instruction) bool {
				cc := eng.CallOf(x)
				return cc != nil && eng.CalleeName(cc) == "builtin.close" && len(cc.Args) == 1 && eng.SameField(eng.LoadedField(cc.Args[0]), f)
			}
			// a channel made closed, or never closed at all, is a different matter; here: closed in Start
			closes := false
			eng.EachInstr(start, func(x ssa.Instruction) {
				if isClose(x) {
					closes = true
				}
			})
			if !closes {
				r.Undecided("C19/DRAIN", cons, p.InstrPos(in), "Drain receives from Server.%s, which Start does not close: what ends that wait was not found", f.Name())
				return
			}
			if ret := (&eng.Search{Target: eng.IsReturnOf(start), Avoid: isClose, Deep: true}).FromEntry(start); ret != nil && !eng.IsRecoverBlock(ret.Block()) {
				r.Bad("C19/DRAIN", cons, p.InstrPos(in), "Drain waits for Server.%s, but Start can return at %s without closing it (a start that failed, e.g. the address could not be bound): the shutdown sequence then blocks in Drain for ever — the later waits and the cleanup are never reached", f.Name(), p.InstrPos(ret))
			} else {
				r.Ok("C19/DRAIN", cons, p.InstrPos(in), "Server.%s is closed on every exit of Start", f.Name())
			}
		})
		_ = nRecv
	}
	// D3 listener close after ctx.Done
	// the wait may live in a helper Start calls synchronously (closeOnShutdown(ctx))
	var doneRecv ssa.Instruction
	waitFn := start
	var startFns []*ssa.Function
	for fn := range p.SyncReach(start) {
		if eng.FuncPkgPath(fn) == eng.Mod+"/"+rel {
			startFns = append(startFns, fn)
		}
	}
	sortFuncs(startFns)
	for _, fn := range append([]*ssa.Function{start}, startFns...) {
		if doneRecv != nil {
			break
		}
		fn := fn
		eng.EachInstr(fn, func(in ssa.Instruction) {
			if u, ok := in.(*ssa.UnOp); ok && u.Op == token.ARROW {
				if call, ok := u.X.(*ssa.Call); ok && call.Call.IsInvoke() && call.Call.Method.Name() == "Done" {
					doneRecv = in
					waitFn = fn
				}
			}
		})
	}
	isLisClose := func(in ssa.Instruction) bool {
		call, ok := in.(*ssa.Call)
		if !ok {
			return false
		}
		if !call.Call.IsInvoke() {
			// the listener field holds a decorator that embeds the bound listener: Close is the
			// promoted method, called on the field's value
			if g := eng.StaticCallee(call.Common()); g != nil && g.Name() == "Close" && g.Signature.Recv() != nil && len(call.Call.Args) == 1 {
				return eng.SameField(eng.LoadedField(call.Call.Args[0]), fLis)
			}
			return false
		}
		if call.Call.Method.Name() != "Close" {
			return false
		}
		// the field itself, or the listener embedded in the decorator the field points to
		v := call.Call.Value
		for d := 0; d < 4 && v != nil; d++ {
			if eng.SameField(eng.LoadedField(v), fLis) {
				return true
			}
			u, isU := v.(*ssa.UnOp)
			if !isU || u.Op != token.MUL {
				break
			}
			fa, isFA := u.X.(*ssa.FieldAddr)
			if !isFA {
				break
			}
			v = fa.X
		}
		return false
	}
	if doneRecv == nil {
		r.Bad("C19/LISTENER", name+":Start", p.Pos(start.Pos()), "Start does not wait for ctx.Done(): the listener is never closed on shutdown")
	} else if ret := (&eng.Search{Target: eng.IsReturnOf(waitFn), Avoid: isLisClose, Deep: true}).After(doneRecv); ret != nil {
		r.Bad("C19/LISTENER", name+":Start", p.InstrPos(ret), "a path from ctx.Done() to return does not close the listener: new connections are still accepted after shutdown was requested")
	} else if blk := (&eng.Search{Target: func(in ssa.Instruction) bool {
		switch x := in.(type) {
		case *ssa.Call:
			return wgCall(x.Common(), "Wait", fWG) || eng.CalleeName(x.Common()) == "time.Sleep"
		case *ssa.UnOp:
			return x.Op == token.ARROW && in != doneRecv
		case *ssa.Select:
			return x.Blocking
		}
		return false
	}, Avoid: isLisClose, Deep: true}).After(doneRecv); blk != nil {
		r.Bad("C19/LISTENER", name+":Start", p.InstrPos(blk), "after ctx.Done() the server waits at %s before the listener is closed: while sessions that were open at shutdown drain, new connections are still accepted and greeted (and counted, so the drain may never end)", p.InstrPos(blk))
	} else {
		r.Ok("C19/LISTENER", name+":Start", p.InstrPos(doneRecv), "listener closed on every path after ctx.Done(), before anything else is waited for")
	}
	// serve: ctx.Done arm returns without notify
	serve := p.Method(rel, "Server", "serve")
	if serve == nil {
		return
	}
	okArm := false
	var selSite string
	// "shutdown observed" evidence: the ctx.Done() arm of a select, or the true outcome of a
	// helper that is such a select returning true on that arm and false on default
	type doneArm struct {
		arm  *ssa.BasicBlock
		site ssa.Instruction
	}
	var arms []doneArm
	// the shutdown channel: ctx.Done(), or a parameter that is handed ctx.Done() where the
	// function is called or started (go s.serve(ctx.Done()))
	var isDoneChan func(v ssa.Value, depth int) bool
	isDoneChan = func(v ssa.Value, depth int) bool {
		if depth > 3 {
			return false
		}
		v = eng.StripConv(v)
		if call, ok := v.(*ssa.Call); ok && call.Call.IsInvoke() && call.Call.Method.Name() == "Done" {
			return true
		}
		if prm, ok := v.(*ssa.Parameter); ok {
			if w := p.Actual(prm); w != ssa.Value(prm) {
				return isDoneChan(w, depth+1)
			}
		}
		return false
	}
	isDoneSel := func(sel *ssa.Select) int {
		for i, st := range sel.States {
			if isDoneChan(st.Chan, 0) {
				return i
			}
		}
		return -1
	}
	donePredicate := func(h *ssa.Function) bool {
		if h == nil || len(h.Blocks) == 0 || h.Signature.Results().Len() != 1 {
			return false
		}
		ok := false
		eng.EachInstr(h, func(in ssa.Instruction) {
			sel, isSel := in.(*ssa.Select)
			if !isSel || sel.Blocking {
				return
			}
			i := isDoneSel(sel)
			if i < 0 {
				return
			}
			arm := eng.SelectArm(sel, i)
			if arm == nil {
				return
			}
			// arm returns true, every other return returns false
			armTrue := eng.BlockReaches(arm, func(x ssa.Instruction) bool {
				ret, isRet := x.(*ssa.Return)
				if !isRet {
					return false
				}
				b, isC := eng.ConstBool(eng.ReturnResults(ret)[0])
				return !(isC && b)
			}, nil) == nil
			othersFalse := true
			eng.EachInstr(h, func(x ssa.Instruction) {
				ret, isRet := x.(*ssa.Return)
				if !isRet || arm.Dominates(ret.Block()) {
					return
				}
				if b, isC := eng.ConstBool(eng.ReturnResults(ret)[0]); !isC || b {
					othersFalse = false
				}
			})
			if armTrue && othersFalse {
				ok = true
			}
		})
		return ok
	}
	eng.EachInstr(serve, func(in ssa.Instruction) {
		if sel, ok := in.(*ssa.Select); ok {
			if i := isDoneSel(sel); i >= 0 {
				if arm := eng.SelectArm(sel, i); arm != nil {
					arms = append(arms, doneArm{arm, in})
				}
			}
		}
	})
	for _, b := range serve.Blocks {
		for k := 0; k < len(b.Succs) && len(b.Succs) == 2; k++ {
			v, pol, ok := eng.CondTruth(b, k)
			if !ok || !pol {
				continue
			}
			if call, ok := v.(*ssa.Call); ok && donePredicate(eng.StaticCallee(call.Common())) {
				arms = append(arms, doneArm{b.Succs[k], call})
			}
		}
	}
	isAccept := func(x ssa.Instruction) bool {
		call, ok := x.(*ssa.Call)
		return ok && call.Call.IsInvoke() && call.Call.Method.Name() == "Accept"
	}
	isNotifyI := func(x ssa.Instruction) bool {
		if s, ok := x.(*ssa.Send); ok && eng.SameField(eng.LoadedField(s.Chan), fNotify) {
			return true
		}
		if call, ok := x.(*ssa.Call); ok && eng.CalleeName(call.Common()) == "builtin.close" && eng.SameField(eng.LoadedField(call.Call.Args[0]), fNotify) {
			return true
		}
		return false
	}
	// the accept-error handling extracted into a helper: its ctx.Done() arm returns quietly
	// with constant results, and serve returns (does not accept again) on those results
	eng.EachInstr(serve, func(in ssa.Instruction) {
		hc, ok := in.(*ssa.Call)
		if !ok {
			return
		}
		h := eng.StaticCallee(hc.Common())
		if h == nil || len(h.Blocks) == 0 || eng.FuncPkgPath(h) != eng.Mod+"/"+rel || donePredicate(h) {
			return
		}
		// the places in h where shutdown has been observed: the ctx.Done() arm of a select, or
		// the true edge of ctx.Err() != nil
		type obs struct {
			arm *ssa.BasicBlock
			at  ssa.Instruction
		}
		var observed []obs
		eng.EachInstr(h, func(hi ssa.Instruction) {
			if sel, isSel := hi.(*ssa.Select); isSel {
				if i := isDoneSel(sel); i >= 0 {
					if arm := eng.SelectArm(sel, i); arm != nil {
						observed = append(observed, obs{arm, hi})
					}
				}
			}
		})
		for _, b := range h.Blocks {
			for k := 0; k < len(b.Succs) && len(b.Succs) == 2; k++ {
				rel, ok := eng.EdgeRel(b, k)
				if !ok || rel.Op != token.NEQ || !eng.IsNilConst(rel.Y) {
					continue
				}
				if ec, ok := rel.X.(*ssa.Call); ok && ec.Call.IsInvoke() && ec.Call.Method.Name() == "Err" && ec.Call.Method.Pkg() != nil && ec.Call.Method.Pkg().Path() == "context" && len(b.Succs[k].Preds) == 1 {
					observed = append(observed, obs{b.Succs[k], ec})
				}
			}
		}
		for _, ob := range observed {
			arm, hi := ob.arm, ob.at
			func() {
				selSite = p.InstrPos(hi)
				if eng.BlockReaches(arm, isNotifyI, nil) != nil || eng.BlockReaches(arm, isAccept, nil) != nil {
					return
				}
				// the constant boolean results of the returns the arm reaches
				consts := map[int]bool{}
				conflict := false
				nRet := 0
				eng.BlockReaches(arm, func(x ssa.Instruction) bool {
					ret, isRet := x.(*ssa.Return)
					if !isRet {
						return false
					}
					nRet++
					for ri, rv := range eng.ReturnResults(ret) {
						if b, isC := eng.ConstBool(rv); isC {
							if old, has := consts[ri]; has && old != b {
								conflict = true
							}
							consts[ri] = b
						}
					}
					return false
				}, nil)
				if nRet == 0 || conflict {
					return
				}
				// back in serve: with those results the loop must end
				quiet := false
				if h.Signature.Results().Len() == 0 {
					quiet = (&eng.Search{Target: isAccept}).After(hc) == nil
				}
				for ri, bv := range consts {
					var ex ssa.Value
					if h.Signature.Results().Len() == 1 && ri == 0 {
						ex = hc
					} else {
						ex = extractOf(hc, ri)
					}
					if ex == nil {
						continue
					}
					for _, b := range serve.Blocks {
						for k := 0; k < len(b.Succs) && len(b.Succs) == 2; k++ {
							v, pol, ok := eng.CondTruth(b, k)
							if !ok || pol != bv {
								continue
							}
							same := v == ex
							for _, al := range eng.ValueAliases(ex) {
								if v == al {
									same = true
								}
							}
							if !same || !eng.Dominates(hc, eng.IfOf(b)) {
								continue
							}
							if eng.BlockReaches(b.Succs[k], isAccept, nil) == nil && eng.BlockReaches(b.Succs[k], isNotifyI, nil) == nil && eng.BlockReaches(b.Succs[k], eng.IsReturn, nil) != nil {
								quiet = true
							}
						}
					}
				}
				if quiet {
					okArm = true
				}
			}()
		}
	})
	for _, da := range arms {
		{
			arm := da.arm
			in := da.site
			selSite = p.InstrPos(in)
			isNotify := func(x ssa.Instruction) bool {
				if s, ok := x.(*ssa.Send); ok && eng.SameField(eng.LoadedField(s.Chan), fNotify) {
					return true
				}
				if call, ok := x.(*ssa.Call); ok && eng.CalleeName(call.Common()) == "builtin.close" && eng.SameField(eng.LoadedField(call.Call.Args[0]), fNotify) {
					return true
				}
				return false
			}
			reachesRet := eng.BlockReaches(arm, eng.IsReturn, isNotify) != nil
			reachesNotify := eng.BlockReaches(arm, isNotify, eng.IsReturn) != nil
			// and the arm must not loop back to Accept
			loops := eng.BlockReaches(arm, func(x ssa.Instruction) bool {
				call, ok := x.(*ssa.Call)
				return ok && call.Call.IsInvoke() && call.Call.Method.Name() == "Accept"
			}, nil) != nil
			if reachesRet && !reachesNotify && !loops {
				okArm = true
			}
		}
	}
	r.Check(okArm, "C19/LISTENER", name+":serve", selSite, "accept-error path observes ctx.Done() and returns quietly", "the accept loop has no ctx.Done() arm that returns without notifying: closing the listener at shutdown is reported as a fatal service failure (or the loop spins)")
}

func (c *Ctx) c19Main() {
	r, p := c.R, c.P
	mainPkg := p.ByPath[eng.Mod+"/cmd/inbucket"]
	if mainPkg == nil {
		r.Fatal("UNRESOLVED anchor=cmd/inbucket")
		return
	}
	var mainFn *ssa.Function
	if sp := p.SSA.Package(mainPkg.Types); sp != nil {
		mainFn = sp.Func("main")
	}
	svcStart := p.Method("pkg/server", "Services", "Start")
	sd := p.Method("pkg/server/smtp", "Server", "Drain")
	pd := p.Method("pkg/server/pop3", "Server", "Drain")
	join := p.Method("pkg/storage", "RetentionScanner", "Join")
	if mainFn == nil || svcStart == nil || sd == nil || pd == nil || join == nil {
		r.Fatal("UNRESOLVED anchor=main/Services.Start/Drain/Join")
		return
	}
	var startCall ssa.Instruction
	eng.EachInstr(mainFn, func(in ssa.Instruction) {
		if call, ok := in.(*ssa.Call); ok {
			if g := eng.StaticCallee(call.Common()); g == svcStart || g != nil && eng.InModule(g) && p.SyncReach(g)[svcStart] {
				startCall = in
			}
		}
	})
	if startCall == nil {
		r.Bad("C19/DRAIN", "main", p.Pos(mainFn.Pos()), "main does not start the services")
		return
	}
	for _, w := range []struct {
		fn   *ssa.Function
		name string
	}{{sd, "smtp.Drain"}, {pd, "pop3.Drain"}, {join, "RetentionScanner.Join"}} {
		w := w
		is := func(in ssa.Instruction) bool {
			call, ok := in.(*ssa.Call)
			if !ok {
				return false
			}
			if eng.StaticCallee(call.Common()) == w.fn {
				return true
			}
			// called through a function value (a table of shutdown steps holding method
			// values): the call graph resolves the site
			if eng.StaticCallee(call.Common()) == nil && !call.Call.IsInvoke() {
				for _, g := range p.Callees(call) {
					if eng.UnwrapBound(g) == w.fn {
						return true
					}
				}
			}
			return false
		}
		// through helpers of the main package (drainServices(services)); loops over a literal
		// table of shutdown steps are known to run
		busyH := map[*ssa.Function]bool{}
		var isOrVia func(in ssa.Instruction) bool
		isOrVia = func(in ssa.Instruction) bool {
			if is(in) {
				return true
			}
			call, ok := in.(*ssa.Call)
			if !ok {
				return false
			}
			g := eng.StaticCallee(call.Common())
			if g == nil || len(g.Blocks) == 0 || eng.FuncPkgPath(g) != eng.FuncPkgPath(mainFn) || busyH[g] || len(busyH) > 3 {
				return false
			}
			busyH[g] = true
			defer delete(busyH, g)
			return eng.ReachPhiAwareFromEntry(g, eng.IsReturnOf(g), isOrVia) == nil
		}
		if ret := eng.ReachPhiAware(startCall, eng.IsReturnOf(mainFn), isOrVia); ret != nil {
			r.Bad("C19/DRAIN", "main:"+w.name, p.InstrPos(ret), "main can return without calling %s after the services were started: the process exits under open sessions", w.name)
		} else {
			r.Ok("C19/DRAIN", "main:"+w.name, p.InstrPos(startCall), "every path from services.Start to return calls %s", w.name)
		}
	}
	// the services' context is cancelled before anything waits for them: Drain only waits for
	// sessions that exist, so with listeners still accepting (and the hub and the scanner still
	// running) new sessions start behind it and Join never returns
	r.Rule("C19/DRAIN/cancel-first", "in main every path from services.Start to a Drain/Join call passes a call of the cancel function of the context the services run under, or the observed cancellation (Done) of that context or of an ancestor of it")
	{
		var ctxV ssa.Value
		// the call of Services.Start itself: in main, or in the helper of the main package that
		// main calls to start the services
		var realStart *ssa.Call
		for fn := range p.SyncReach(mainFn) {
			if eng.FuncPkgPath(fn) != eng.FuncPkgPath(mainFn) {
				continue
			}
			eng.EachInstr(fn, func(in ssa.Instruction) {
				if call, ok := in.(*ssa.Call); ok && eng.StaticCallee(call.Common()) == svcStart {
					realStart = call
				}
			})
		}
		if realStart != nil {
			for _, a := range realStart.Call.Args {
				if n, isN := a.Type().(*types.Named); isN && n.Obj().Pkg() != nil && n.Obj().Pkg().Path() == "context" && n.Obj().Name() == "Context" {
					ctxV = resolveCell(a)
				}
			}
		}
		cancels := map[ssa.Value]bool{}
		ctxs := map[ssa.Value]bool{}
		for v, depth := ctxV, 0; v != nil && depth < 4; depth++ {
			ctxs[v] = true
			call, idx := eng.CallAndIndex(v)
			if call == nil || idx != 0 {
				break
			}
			name := eng.CalleeName(call.Common())
			if !strings.HasPrefix(name, "context.With") && name != "os/signal.NotifyContext" {
				break
			}
			if cv := extractOf(call, 1); cv != nil {
				cancels[cv] = true
				for _, al := range eng.ValueAliases(cv) {
					cancels[al] = true
				}
			}
			for _, al := range eng.ValueAliases(v) {
				ctxs[al] = true
			}
			if len(call.Call.Args) == 0 {
				break
			}
			v = resolveCell(call.Call.Args[0])
		}
		// handed back to main by the starting helper
		if realStart != nil && realStart.Parent() != mainFn {
			if sc, ok := startCall.(*ssa.Call); ok && eng.StaticCallee(sc.Common()) == realStart.Parent() {
				eng.EachInstr(realStart.Parent(), func(in ssa.Instruction) {
					ret, ok := in.(*ssa.Return)
					if !ok {
						return
					}
					for i, rv := range eng.ReturnResults(ret) {
						var mv ssa.Value
						if len(eng.ReturnResults(ret)) == 1 {
							mv = sc
						} else {
							mv = extractOf(sc, i)
						}
						if mv == nil {
							continue
						}
						rv = resolveCell(rv)
						if cancels[rv] {
							cancels[mv] = true
							for _, al := range eng.ValueAliases(mv) {
								cancels[al] = true
							}
						}
						if ctxs[rv] {
							ctxs[mv] = true
							for _, al := range eng.ValueAliases(mv) {
								ctxs[al] = true
							}
						}
					}
				})
			}
		}
		isDoneOf := func(v ssa.Value) bool {
			call, ok := v.(*ssa.Call)
			if !ok || !call.Call.IsInvoke() || call.Call.Method.Name() != "Done" {
				return false
			}
			return ctxs[call.Call.Value] || ctxs[resolveCell(call.Call.Value)]
		}
		// blocks in which a cancellation has been observed
		observed := map[*ssa.BasicBlock]bool{}
		eng.EachInstr(mainFn, func(in ssa.Instruction) {
			if sel, ok := in.(*ssa.Select); ok {
				for i, st := range sel.States {
					if isDoneOf(st.Chan) {
						if arm := eng.SelectArm(sel, i); arm != nil {
							for _, b := range mainFn.Blocks {
								if arm.Dominates(b) {
									observed[b] = true
								}
							}
						}
					}
				}
			}
		})
		isCancel := func(in ssa.Instruction) bool {
			if observed[in.Block()] {
				return true
			}
			switch x := in.(type) {
			case *ssa.Call:
				if !x.Call.IsInvoke() && (cancels[x.Call.Value] || cancels[resolveCell(x.Call.Value)]) {
					return true
				}
			case *ssa.UnOp:
				if x.Op == token.ARROW && isDoneOf(x.X) {
					return true
				}
			}
			return false
		}
		isWait := func(in ssa.Instruction) bool {
			call, ok := in.(*ssa.Call)
			if !ok {
				return false
			}
			g := eng.StaticCallee(call.Common())
			if g == nil {
				// a wait called through a function value (a table of shutdown steps holding
				// method values): the call graph resolves the site
				if !call.Call.IsInvoke() {
					for _, h := range p.Callees(call) {
						if u := eng.UnwrapBound(h); u == sd || u == pd || u == join {
							return true
						}
					}
				}
				return false
			}
			if g == sd || g == pd || g == join {
				return true
			}
			if eng.FuncPkgPath(g) == eng.FuncPkgPath(mainFn) {
				reach := p.SyncReach(g)
				return reach[sd] || reach[pd] || reach[join]
			}
			return false
		}
		switch {
		case ctxV == nil || len(cancels) == 0:
			r.Undecided("C19/DRAIN/cancel-first", "main", p.InstrPos(startCall), "cannot identify the context the services are started with, or its cancel function")
		default:
			nWaits := 0
			eng.EachInstr(mainFn, func(in ssa.Instruction) {
				if isWait(in) {
					nWaits++
				}
			})
			if nWaits == 0 {
				r.Undecided("C19/DRAIN/cancel-first", "main", p.InstrPos(startCall), "no call of Drain/Join (direct, through a helper or through a function value) was found in main")
			} else if hit := eng.ReachPhiAware(startCall, isWait, isCancel); hit != nil {
				r.Bad("C19/DRAIN/cancel-first", "main", p.InstrPos(hit), "main reaches %s without having cancelled the services' context on that path (e.g. the shutdown triggered by a failed service rather than a signal): the listeners keep accepting while Drain runs, sessions started behind it are cut off, and the retention scanner's Join blocks until the forced exit", waitName(hit))
			} else {
				r.Ok("C19/DRAIN/cancel-first", "main", p.InstrPos(startCall), "every path from services.Start to Drain/Join cancels the services' context first")
			}
		}
	}
	// Services.Start starts the hub, both servers and the scanner as goroutines
	gos := 0
	eng.EachInstr(svcStart, func(in ssa.Instruction) {
		if _, ok := in.(*ssa.Go); ok {
			gos++
		}
	})
	r.Floor("C19/DRAIN", "go statements in Services.Start", gos, 1)
}

func (c *Ctx) c19Hub() {
	r, p := c.R, c.P
	hubT := p.Named("pkg/msghub", "Hub")
	if hubT == nil {
		return
	}
	ops := eng.ChanOps(p.Funcs)
	st := hubT.Underlying().(*types.Struct)
	n := 0
	for i := 0; i < st.NumFields(); i++ {
		f := st.Field(i)
		if _, isChan := f.Type().Underlying().(*types.Chan); !isChan {
			continue
		}
		n++
		var mine []eng.ChanOp
		for k, os := range ops {
			if _, kf := keyField(k, os); kf != nil && eng.SameField(kf, f) {
				for _, o := range os {
					if !p.IsTestSupport(o.Fn) {
						mine = append(mine, o)
					}
				}
			}
		}
		cr := closeRace(mine)
		cons := "msghub.Hub." + f.Name()
		if len(cr.racy) > 0 {
			var who []string
			seen := map[string]bool{}
			for _, s := range cr.racy {
				if !seen[shortFn(s.Fn)] {
					seen[shortFn(s.Fn)] = true
					who = append(who, shortFn(s.Fn))
				}
			}
			r.Bad("C19/HUB", cons, p.InstrPos(cr.closes[0].In), "closed at cancellation (%s) but sent to by %s: after cancel a draining SMTP session's AfterMessageStored listener calls Dispatch, the send on the closed channel panics in a goroutine without recover and the process dies with the session's message unacknowledged", p.InstrPos(cr.closes[0].In), strings.Join(who, ", "))
		} else {
			r.Ok("C19/HUB", cons, "", "closes=%d sends=%d: no producer can hit a closed channel", len(cr.closes), len(cr.sends))
		}
	}
	r.Floor("C19/HUB", "channel fields of msghub.Hub", n, 1)
	// "the message hub stops": in the hub's own loop the arm that receives from the shutdown
	// context's Done channel leaves the loop — from that arm the select is not reached again. An
	// arm that falls back into the loop spins on the closed channel for ever and never closes
	// what the producers wait for
	r.Rule("C19/HUB/stops", "in pkg/msghub every select arm that receives from a context's Done() channel does not reach that select again")
	nStop := 0
	for _, fn := range pkgFuncs(p, "pkg/msghub") {
		fn := fn
		eng.EachInstr(fn, func(in ssa.Instruction) {
			sel, ok := in.(*ssa.Select)
			if !ok {
				return
			}
			for si, stt := range sel.States {
				if stt.Dir != types.RecvOnly {
					continue
				}
				dc, isCall := eng.StripConv(stt.Chan).(*ssa.Call)
				if !isCall || !dc.Call.IsInvoke() || dc.Call.Method.Name() != "Done" {
					continue
				}
				nStop++
				cons := "done-arm@" + shortFn(fn)
				// the edge on which the chosen index equals si
				var start *ssa.BasicBlock
				for _, b := range fn.Blocks {
					for k := 0; k < len(b.Succs) && len(b.Succs) == 2; k++ {
						rel, okR := eng.EdgeRel(b, k)
						if !okR || rel.Op != token.EQL {
							continue
						}
						ex, isEx := rel.X.(*ssa.Extract)
						kk, isK := eng.ConstInt(rel.Y)
						if isEx && isK && ex.Tuple == ssa.Value(sel) && ex.Index == 0 && int(kk) == si {
							start = b.Succs[k]
						}
					}
				}
				if start == nil {
					r.Undecided("C19/HUB/stops", cons, p.InstrPos(sel), "the branch taken for the Done arm was not found")
					continue
				}
				again := (&eng.Search{Target: func(x ssa.Instruction) bool { return x == ssa.Instruction(sel) }}).FromBlockStart(start)
				if again != nil {
					r.Bad("C19/HUB/stops", cons, p.InstrPos(sel), "after the shutdown context is done the hub's loop comes back to this select: the Done channel stays ready, so the goroutine spins, never returns, and whatever its exit closes for the producers is never closed")
				} else {
					r.Ok("C19/HUB/stops", cons, p.InstrPos(sel), "the Done arm leaves the loop")
				}
			}
		})
	}
	r.Floor("C19/HUB/stops", "Done arms in the hub's selects", nStop, 1)
	// producers are released when the consumer is gone: after cancel nobody receives from the
	// operation queue any more, and the producers are store listeners running in sessions that
	// are still draining. A producer's send must therefore have a way out — a select arm on a
	// hub channel that the consumer closes on every one of its exits (or a default) — otherwise
	// the first producer that finds the queue full blocks for good and Drain never returns.
	r.Rule("C19/HUB/producers-released", "every send on a msghub.Hub channel that the hub goroutine consumes is a select with a default or with an arm on a Hub channel that the consumer function closes on every exit")
	fieldOps := func(f *types.Var) []eng.ChanOp {
		var out []eng.ChanOp
		for k, os := range ops {
			if _, kf := keyField(k, os); kf != nil && eng.SameField(kf, f) {
				for _, o := range os {
					if !p.IsTestSupport(o.Fn) {
						out = append(out, o)
					}
				}
			}
		}
		return out
	}
	nSend := 0
	ord := map[string]int{}
	for i := 0; i < st.NumFields(); i++ {
		f := st.Field(i)
		if _, isChan := f.Type().Underlying().(*types.Chan); !isChan {
			continue
		}
		var sends, recvs []eng.ChanOp
		for _, o := range fieldOps(f) {
			switch o.Kind {
			case "send":
				sends = append(sends, o)
			case "recv":
				recvs = append(recvs, o)
			}
		}
		if len(sends) == 0 || len(recvs) == 0 {
			continue
		}
		// the consumer: the function(s) receiving from the queue
		consumers := map[*ssa.Function]bool{}
		for _, o := range recvs {
			consumers[eng.Outer(o.Fn)] = true
		}
		closedOnEveryExit := func(g *types.Var) bool {
			okAll := len(consumers) > 0
			isClose := func(in ssa.Instruction) bool {
				call := eng.CallOf(in)
				if call == nil || eng.CalleeName(call) != "builtin.close" || len(call.Args) != 1 {
					return false
				}
				return eng.SameField(eng.LoadedField(call.Args[0]), g)
			}
			closesAll := func(fn *ssa.Function) bool {
				ret := (&eng.Search{Target: eng.IsReturnOf(fn), Avoid: isClose, Deep: true}).FromEntry(fn)
				return ret == nil || eng.IsRecoverBlock(ret.Block())
			}
			for cf := range consumers {
				// the receive may sit in a step helper (`for hub.serveNext(ctx) {}`): then the
				// loop's owner, a synchronous caller in the package, is the one that exits
				cands := []*ssa.Function{cf}
				okOne := false
				for depth := 0; depth < 3 && !okOne; depth++ {
					var next []*ssa.Function
					for _, fn := range cands {
						if closesAll(fn) {
							okOne = true
						}
						for _, cs := range p.StaticCallSites(fn) {
							if _, isCall := cs.Instr.(*ssa.Call); isCall && eng.FuncPkgPath(cs.Instr.Parent()) == eng.FuncPkgPath(fn) {
								next = append(next, eng.Outer(cs.Instr.Parent()))
							}
						}
					}
					cands = next
				}
				if !okOne {
					okAll = false
				}
			}
			return okAll
		}
		for _, sd := range sends {
			nSend++
			cons := siteCons(p, sd.In, ord, "send:"+f.Name())
			switch {
			case !sd.InSelect:
				r.Bad("C19/HUB/producers-released", cons, p.InstrPos(sd.In), "plain send on Hub.%s: once the hub goroutine has exited at cancellation nothing receives from the queue, so a producer (a draining session's store listener) that finds it full blocks for ever and Drain never returns", f.Name())
			case !sd.Blocking:
				r.Ok("C19/HUB/producers-released", cons, p.InstrPos(sd.In), "select with default")
			default:
				escape := ""
				for k, stt := range sd.Select.States {
					if k == sd.State || stt.Dir != types.RecvOnly {
						continue
					}
					if g := eng.LoadedField(stt.Chan); g != nil && closedOnEveryExit(g) {
						escape = g.Name()
					}
				}
				if escape != "" {
					r.Ok("C19/HUB/producers-released", cons, p.InstrPos(sd.In), "the send competes with a receive on Hub.%s, which the consumer closes on every exit", escape)
				} else {
					r.Bad("C19/HUB/producers-released", cons, p.InstrPos(sd.In), "the send on Hub.%s has no way out once the hub goroutine is gone: no arm of its select receives from a Hub channel that the consumer closes on every one of its exits — after cancellation a producer that finds the queue full blocks for ever (a draining session never finishes, Drain never returns)", f.Name())
				}
			}
		}
	}
	r.Floor("C19/HUB/producers-released", "producer sends on consumed Hub channels", nSend, 1)
}

// retentionCancel implements C12/D3 = C19/D5.
func (c *Ctx) retentionCancel(rule string) {
	r, p := c.R, c.P
	start := p.Method("pkg/storage", "RetentionScanner", "Start")
	scan := p.Method("pkg/storage", "RetentionScanner", "DoScan")
	join := p.Method("pkg/storage", "RetentionScanner", "Join")
	// the shutdown channel: the channel field of the scanner that Join waits on
	var fShut *types.Var
	if join != nil {
		eng.EachInstr(join, func(in ssa.Instruction) {
			if u, ok := in.(*ssa.UnOp); ok && u.Op == token.ARROW && fShut == nil {
				if f := eng.LoadedField(u.X); f != nil {
					fShut = f
				}
			}
			if sel, ok := in.(*ssa.Select); ok && fShut == nil {
				for _, stt := range sel.States {
					if f := eng.LoadedField(stt.Chan); f != nil && stt.Dir == types.RecvOnly {
						fShut = f
					}
				}
			}
		})
	}
	if fShut == nil {
		fShut = p.Field("pkg/storage", "RetentionScanner", "retentionShutdown")
	}
	if start == nil || scan == nil || join == nil || fShut == nil {
		return
	}
	isCtxDone := func(v ssa.Value) bool {
		call, ok := v.(*ssa.Call)
		return ok && call.Call.IsInvoke() && call.Call.Method.Name() == "Done"
	}
	// every blocking op in Start, DoScan and its visitor closure is a select with ctx.Done()
	nBlock := 0
	var scannerFns []*ssa.Function
	for fn := range p.SyncReach(start, scan) {
		if eng.FuncPkgPath(fn) == eng.Mod+"/pkg/storage" {
			scannerFns = append(scannerFns, fn)
		}
	}
	sort.Slice(scannerFns, func(i, j int) bool { return scannerFns[i].String() < scannerFns[j].String() })
	for _, fn := range scannerFns {
		fn := fn
		eng.EachInstr(fn, func(in ssa.Instruction) {
			cons := "blocking@" + shortFn(fn)
			switch x := in.(type) {
			case *ssa.Select:
				if !x.Blocking {
					return
				}
				nBlock++
				has := -1
				for i, st := range x.States {
					if isCtxDone(st.Chan) {
						has = i
					}
				}
				if has < 0 {
					r.Bad(rule, cons, p.InstrPos(in), "blocking select without a ctx.Done() arm: shutdown waits for it")
					return
				}
				arm := eng.SelectArm(x, has)
				// the arm must not come back to this select
				// (a loop steered by a flag the arm sets — stopping = true … for !stopping — is left
				// as surely as by a return: the search follows the values of boolean phis)
				if arm == nil || len(arm.Instrs) == 0 || eng.ReachPhiAwareFromBlock(arm, func(y ssa.Instruction) bool { return y == in }, nil) != nil {
					r.Bad(rule, cons, p.InstrPos(in), "the ctx.Done() arm does not leave the loop")
					return
				}
				// in the visitor closure the arm must return false
				if visitorSig(fn) {
					bad := eng.BlockReaches(arm, func(y ssa.Instruction) bool {
						ret, ok := y.(*ssa.Return)
						if !ok {
							return false
						}
						b, isC := eng.ConstBool(eng.ReturnResults(ret)[0])
						return !(isC && !b)
					}, nil)
					if bad != nil {
						r.Bad(rule, cons, p.InstrPos(in), "on ctx.Done() the visitor does not return false: the scan continues over the remaining mailboxes")
						return
					}
				}
				// the select sits in a helper the visitor calls (pause(ctx) bool): what the helper
				// returns on the Done arm must make the visitor return false
				if !visitorSig(fn) && fn.Signature.Results().Len() == 1 && isBool(fn.Signature.Results().At(0).Type()) {
					var armVals []bool
					okConst := true
					eng.BlockReaches(arm, func(y ssa.Instruction) bool {
						if ret, ok := y.(*ssa.Return); ok && y.Parent() == fn {
							if b, isC := eng.ConstBool(eng.ReturnResults(ret)[0]); isC {
								armVals = append(armVals, b)
							} else {
								okConst = false
							}
						}
						return false
					}, nil)
					for _, cs := range p.StaticCallSites(fn) {
						V := cs.Instr.Parent()
						call, isCall := cs.Instr.(*ssa.Call)
						if !visitorSig(V) || !isCall {
							continue
						}
						if !okConst || len(armVals) == 0 {
							r.Undecided(rule, cons, p.InstrPos(in), "cannot tell what %s returns to the visitor on ctx.Done()", shortFn(fn))
							return
						}
						for _, k := range armVals {
							// edges of V on which the helper's result is k; a visitor that returns the
							// call itself returns k
							badRet := ssa.Instruction(nil)
							eng.EachInstr(V, func(y ssa.Instruction) {
								ret, ok := y.(*ssa.Return)
								if !ok || y.Parent() != V {
									return
								}
								if eng.ReturnResults(ret)[0] == ssa.Value(call) && k {
									badRet = y
								}
							})
							for _, b := range V.Blocks {
								for e := 0; e < len(b.Succs) && len(b.Succs) == 2; e++ {
									v, pol, ok := eng.CondTruth(b, e)
									if !ok || v != ssa.Value(call) || pol != k {
										continue
									}
									if hit := eng.BlockReaches(b.Succs[e], func(y ssa.Instruction) bool {
										ret, ok := y.(*ssa.Return)
										if !ok {
											return false
										}
										if eng.ReturnResults(ret)[0] == ssa.Value(call) {
											return k
										}
										bv, isC := eng.ConstBool(eng.ReturnResults(ret)[0])
										return !(isC && !bv)
									}, nil); hit != nil {
										badRet = hit
									}
								}
							}
							if badRet != nil {
								r.Bad(rule, cons, p.InstrPos(in), "on ctx.Done() %s returns %v and the visitor %s then does not return false (at %s): the scan continues over the remaining mailboxes", shortFn(fn), k, shortFn(V), p.InstrPos(badRet))
								return
							}
						}
					}
				}
				r.Ok(rule, cons, p.InstrPos(in), "select observes ctx.Done() and leaves")
			case *ssa.UnOp:
				if x.Op == token.ARROW {
					nBlock++
					r.Bad(rule, cons, p.InstrPos(in), "plain channel receive in the scanner: not cancellable")
				}
			case *ssa.Send:
				nBlock++
				r.Bad(rule, cons, p.InstrPos(in), "plain channel send in the scanner: not cancellable")
			case *ssa.Call:
				if eng.CalleeName(x.Common()) == "time.Sleep" {
					nBlock++
					r.Bad(rule, cons, p.InstrPos(in), "time.Sleep in the scanner: shutdown waits for the full sleep")
				}
			}
		})
	}
	r.Floor(rule, "blocking operations in the scanner", nBlock, 1)
	// the scan is stopped by its visitor returning false: both stores' VisitMailboxes must then
	// end the whole walk — a `break` out of one directory level goes on calling the visitor for
	// every remaining mailbox, and Join (hence shutdown) waits for all of them
	for _, rel := range []string{"pkg/storage/mem", "pkg/storage/file"} {
		vm := p.Method(rel, "Store", "VisitMailboxes")
		if vm == nil {
			continue
		}
		var vfns []*ssa.Function
		for g := range p.SyncReach(vm) {
			if eng.FuncPkgPath(g) == eng.FuncPkgPath(vm) {
				vfns = append(vfns, g)
			}
		}
		sortFuncs(vfns)
		nV := 0
		bad := ""
		for _, g := range vfns {
			g := g
			eng.EachInstr(g, func(in ssa.Instruction) {
				call, ok := in.(*ssa.Call)
				if !ok || call.Call.IsInvoke() || eng.StaticCallee(call.Common()) != nil {
					return
				}
				// the visitor: vm's function parameter, directly, bound to a helper's parameter,
				// or captured by a callback
				var prm *ssa.Parameter
				switch v := call.Call.Value.(type) {
				case *ssa.Parameter:
					prm, _ = p.Actual(v).(*ssa.Parameter)
				case *ssa.UnOp:
					if cell := eng.CellOf(v.X); cell != nil {
						if sts := eng.CellStores(cell); len(sts) == 1 {
							prm, _ = sts[0].Val.(*ssa.Parameter)
						}
					}
				}
				if prm == nil || prm.Parent() != vm || !visitorSigOfType(prm.Type()) {
					return
				}
				nV++
				// edges on which the visitor's result is false
				for _, b := range g.Blocks {
					for k := 0; k < len(b.Succs) && len(b.Succs) == 2; k++ {
						v, pol, ok := eng.CondTruth(b, k)
						if !ok || pol || v != ssa.Value(call) {
							continue
						}
						// within g: the visitor must not be called again
						again := func(x ssa.Instruction) bool { return x == in }
						if eng.BlockReaches(b.Succs[k], again, nil) != nil {
							bad = "after the visitor returned false at " + p.InstrPos(in) + " the walk in " + shortFn(g) + " can call it again (the stop only leaves an inner loop)"
						}
					}
				}
			})
		}
		cons := "visitor-stop@" + shortFn(vm)
		switch {
		case nV == 0:
			r.Undecided(rule, cons, p.Pos(vm.Pos()), "visitor call not found")
		case bad != "":
			r.Bad(rule, cons, p.Pos(vm.Pos()), "%s: a retention scan that was told to stop (shutdown) still visits, and purges from, every remaining mailbox, and RetentionScanner.Join blocks until it is through", bad)
		default:
			r.Ok(rule, cons, p.Pos(vm.Pos()), "once the visitor returns false it is not called again")
		}
	}
	// every exit of Start closes retentionShutdown
	isClose := func(in ssa.Instruction) bool {
		// a plain close, or `defer close(…)`: once the defer statement has run, every exit
		// (return or panic) closes the channel
		var cc *ssa.CallCommon
		switch x := in.(type) {
		case *ssa.Call:
			cc = x.Common()
		case *ssa.Defer:
			cc = x.Common()
		default:
			return false
		}
		return eng.CalleeName(cc) == "builtin.close" && eng.SameField(eng.LoadedField(cc.Args[0]), fShut)
	}
	if ret := (&eng.Search{Target: eng.IsReturnOf(start), Avoid: isClose, Deep: true}).FromEntry(start); ret != nil {
		r.Bad(rule, "close-on-exit", p.InstrPos(ret), "RetentionScanner.Start can return without closing retentionShutdown: Join blocks forever and main never finishes shutdown")
	} else {
		r.Ok(rule, "close-on-exit", p.Pos(start.Pos()), "every exit of Start closes retentionShutdown")
	}
	// cancellation is observed once per visited mailbox and once per scan
	observes := func(in ssa.Instruction) bool {
		switch x := in.(type) {
		case *ssa.Select:
			for _, st := range x.States {
				if isCtxDone(st.Chan) {
					return true
				}
			}
		case *ssa.Call:
			if x.Call.IsInvoke() && x.Call.Method.Name() == "Err" && x.Call.Method.Pkg() != nil && x.Call.Method.Pkg().Path() == "context" {
				return true
			}
		case *ssa.UnOp:
			if x.Op == token.ARROW && isCtxDone(x.X) {
				return true
			}
		}
		return false
	}
	nVis := 0
	// the visitors: function values handed to VisitMailboxes (function literals, or method
	// values through their bound wrapper)
	visitors := map[*ssa.Function]bool{}
	for _, fn := range scannerFns {
		eng.EachInstr(fn, func(in ssa.Instruction) {
			call, ok := in.(*ssa.Call)
			if !ok {
				return
			}
			name := ""
			if call.Call.IsInvoke() {
				name = call.Call.Method.Name()
			} else if g := eng.StaticCallee(call.Common()); g != nil {
				name = g.Name()
			}
			if name != "VisitMailboxes" {
				return
			}
			for _, a := range call.Call.Args {
				mc, ok := a.(*ssa.MakeClosure)
				if !ok {
					continue
				}
				g, _ := mc.Fn.(*ssa.Function)
				if g == nil {
					continue
				}
				if g.Parent() != nil {
					visitors[g] = true
					continue
				}
				eng.EachInstr(g, func(y ssa.Instruction) {
					if c2, ok := y.(*ssa.Call); ok {
						if h := eng.StaticCallee(c2.Common()); h != nil && eng.InModule(h) {
							visitors[h] = true
						}
					}
				})
			}
		})
	}
	var visFns []*ssa.Function
	for fn := range visitors {
		visFns = append(visFns, fn)
	}
	sortFuncs(visFns)
	for _, fn := range visFns {
		if fn.Signature.Results().Len() != 1 {
			continue
		}
		if b, ok := fn.Signature.Results().At(0).Type().Underlying().(*types.Basic); !ok || b.Kind() != types.Bool {
			continue
		}
		nVis++
		cont := func(in ssa.Instruction) bool {
			ret, ok := in.(*ssa.Return)
			if !ok || len(eng.ReturnResults(ret)) != 1 {
				return false
			}
			b, isC := eng.ConstBool(eng.ReturnResults(ret)[0])
			return !(isC && !b)
		}
		if miss := (&eng.Search{Target: cont, Avoid: observes, Deep: true}).FromEntry(fn); miss != nil {
			r.Bad(rule, "visitor-observes-cancel@"+shortFn(fn), p.InstrPos(miss), "the per-mailbox visitor can ask for the next mailbox (return true) without having looked at ctx.Done(): with such a configuration a scan in progress at shutdown walks and purges every remaining mailbox")
		} else {
			r.Ok(rule, "visitor-observes-cancel@"+shortFn(fn), p.Pos(fn.Pos()), "every path that continues the scan passes a select on ctx.Done()")
		}
	}
	r.Floor(rule, "mailbox visitors in the scanner", nVis, 1)
	// the run loop: wherever the scanner's own code calls the scan (Start, or a helper that
	// holds the loop)
	nLoop := 0
	for _, lf := range scannerFns {
		lf := lf
		if lf == scan || p.SyncReach(scan)[lf] && lf != start {
			continue
		}
		eng.EachInstr(lf, func(in ssa.Instruction) {
			call, ok := in.(*ssa.Call)
			if !ok || eng.StaticCallee(call.Common()) != scan {
				return
			}
			nLoop++
			if again := (&eng.Search{Target: func(y ssa.Instruction) bool { return y == in }, Avoid: observes, Deep: true}).After(in); again != nil {
				r.Bad(rule, "loop-observes-cancel", p.InstrPos(in), "the run loop can start the next scan without having looked at ctx.Done()")
			} else {
				r.Ok(rule, "loop-observes-cancel", p.InstrPos(in), "between two scans the run loop passes a select on ctx.Done()")
			}
		})
	}
	if nLoop == 0 {
		r.Undecided(rule, "loop-observes-cancel", p.Pos(start.Pos()), "the call of the scan was not found in the scanner's run loop")
	}
	joins := false
	eng.EachInstr(join, func(in ssa.Instruction) {
		if u, ok := in.(*ssa.UnOp); ok && u.Op == token.ARROW && eng.SameField(eng.LoadedField(u.X), fShut) {
			joins = true
		}
	})
	r.Check(joins, rule, "join", p.Pos(join.Pos()), "Join receives from retentionShutdown", "Join does not wait on retentionShutdown")
}

// reachesSync: target is reachable from fn through synchronous (non-go) static calls.
func reachesSync(fn, target *ssa.Function) bool {
	seen := map[*ssa.Function]bool{}
	var walk func(f *ssa.Function) bool
	walk = func(f *ssa.Function) bool {
		if f == target {
			return true
		}
		if seen[f] || !eng.InModule(f) {
			return false
		}
		seen[f] = true
		hit := false
		eng.EachInstr(f, func(in ssa.Instruction) {
			switch x := in.(type) {
			case *ssa.Call:
				if g := eng.StaticCallee(x.Common()); g != nil && walk(g) {
					hit = true
				}
			case *ssa.Defer:
				if g := eng.StaticCallee(x.Common()); g != nil && walk(g) {
					hit = true
				}
			}
		})
		return hit
	}
	return walk(fn)
}

// visitorSig: func([]T) bool — the shape of a VisitMailboxes callback (literal or method).
func visitorSig(fn *ssa.Function) bool {
	sig := fn.Signature
	if sig.Results().Len() != 1 || sig.Params().Len() != 1 {
		return false
	}
	if b, ok := sig.Results().At(0).Type().Underlying().(*types.Basic); !ok || b.Kind() != types.Bool {
		return false
	}
	_, isSlice := sig.Params().At(0).Type().Underlying().(*types.Slice)
	return isSlice
}

// visitorSigOfType: func([]T) bool.
func visitorSigOfType(t types.Type) bool {
	sig, ok := t.Underlying().(*types.Signature)
	if !ok || sig.Results().Len() != 1 || sig.Params().Len() != 1 {
		return false
	}
	if b, ok := sig.Results().At(0).Type().Underlying().(*types.Basic); !ok || b.Kind() != types.Bool {
		return false
	}
	_, isSlice := sig.Params().At(0).Type().Underlying().(*types.Slice)
	return isSlice
}

func waitName(in ssa.Instruction) string {
	if call, ok := in.(*ssa.Call); ok {
		if n := eng.CalleeName(call.Common()); n != "" {
			return n
		}
	}
	return "a Drain/Join call made through a function value"
}

// isCtxType: context.Context.
func isCtxType(t types.Type) bool {
	n, ok := t.(*types.Named)
	return ok && n.Obj().Pkg() != nil && n.Obj().Pkg().Path() == "context" && n.Obj().Name() == "Context"
}

// c19SessionCtx: open sessions may finish after shutdown was requested, so nothing a session
// runs may depend on the context whose cancellation requests the shutdown. The services'
// context (the Context parameter of Start) is followed through the package — call arguments
// (also at go statements), struct fields it is stored in, contexts derived from it
// (context.With…), its Done channel — and no such value may be used in a function a session
// runs, nor be handed to the session root.
func (c *Ctx) c19SessionCtx(rel, name string, start, root *ssa.Function, sessFns []*ssa.Function) {
	r, p := c.R, c.P
	rule := "C19/SESSION/no-ctx"
	r.Rule(rule, "the context whose cancellation requests the shutdown (the Context parameter of Server.Start), anything derived from it (context.With…, Done()) and any field it is stored in are not used by the functions a session runs and are not passed to the session root: an open session completes its dialogue")
	tainted := map[ssa.Value]bool{}
	fields := map[*types.Var]bool{}
	for _, prm := range start.Params {
		if isCtxType(prm.Type()) {
			tainted[prm] = true
		}
	}
	if len(tainted) == 0 {
		r.Ok(rule, name+":session-code", p.Pos(start.Pos()), "Start takes no context")
		return
	}
	fns := pkgFuncs(p, rel)
	isT := func(v ssa.Value) bool {
		if tainted[v] {
			return true
		}
		if f := eng.LoadedField(v); f != nil {
			for g := range fields {
				if eng.SameField(f, g) {
					return true
				}
			}
		}
		return false
	}
	for changed := true; changed; {
		changed = false
		mark := func(v ssa.Value) {
			if v != nil && !tainted[v] {
				tainted[v] = true
				changed = true
			}
		}
		for _, fn := range fns {
			fn := fn
			eng.EachInstr(fn, func(in ssa.Instruction) {
				switch x := in.(type) {
				case *ssa.Store:
					if isT(x.Val) {
						if fa, ok := x.Addr.(*ssa.FieldAddr); ok {
							if f := eng.FieldOfAddr(fa); f != nil && !fields[f] {
								fields[f] = true
								changed = true
							}
						} else if al := eng.CellOf(x.Addr); al != nil {
							for _, ld := range eng.CellLoads(al) {
								mark(ld)
							}
						}
					}
				case *ssa.Phi:
					for _, e := range x.Edges {
						if isT(e) {
							mark(x)
						}
					}
				case *ssa.MakeInterface:
					if isT(x.X) {
						mark(x)
					}
				case *ssa.ChangeInterface:
					if isT(x.X) {
						mark(x)
					}
				case *ssa.Extract:
					if isT(x.Tuple) {
						if isCtxType(x.Type()) {
							mark(x)
						}
					}
				case *ssa.UnOp:
					if x.Op == token.MUL && isT(x) {
						mark(x)
					}
				}
				cc := eng.CallOf(in)
				if cc == nil {
					return
				}
				// derived contexts and the Done channel
				if v, ok := in.(ssa.Value); ok {
					if cc.IsInvoke() && isT(cc.Value) && (cc.Method.Name() == "Done" || cc.Method.Name() == "Err") {
						mark(v)
					}
					if nm := eng.CalleeName(cc); strings.HasPrefix(nm, "context.With") && len(cc.Args) > 0 && isT(cc.Args[0]) {
						mark(v)
					}
				}
				callee := eng.StaticCallee(cc)
				if callee == nil || eng.FuncPkgPath(callee) != eng.Mod+"/"+rel || callee.Blocks == nil {
					return
				}
				args := cc.Args
				for i, a := range args {
					if isT(a) && i < len(callee.Params) {
						mark(callee.Params[i])
					}
				}
				if mc, ok := cc.Value.(*ssa.MakeClosure); ok {
					for i, b := range mc.Bindings {
						if isT(b) && i < len(callee.FreeVars) {
							mark(callee.FreeVars[i])
						}
					}
				}
			})
		}
	}
	nBad := 0
	ord := map[string]int{}
	inSess := map[*ssa.Function]bool{root: true}
	for _, fn := range sessFns {
		inSess[fn] = true
	}
	for _, prm := range root.Params {
		if isT(prm) {
			nBad++
			r.Bad(rule, name+":session-root@"+shortFn(root), p.Pos(root.Pos()), "the shutdown context is handed to the session root %s: a session that observes it is cut off by the shutdown request instead of completing its dialogue", shortFn(root))
		}
	}
	var list []*ssa.Function
	for fn := range inSess {
		list = append(list, fn)
	}
	sortFuncs(list)
	for _, fn := range list {
		fn := fn
		reported := false
		eng.EachInstr(fn, func(in ssa.Instruction) {
			if reported {
				return
			}
			for _, op := range in.Operands(nil) {
				if op == nil || *op == nil {
					continue
				}
				if _, isPrm := (*op).(*ssa.Parameter); isPrm && fn == root {
					continue // reported above
				}
				if isT(*op) {
					reported = true
					nBad++
					r.Bad(rule, siteCons(p, in, ord, name+":use"), p.InstrPos(in), "%s, which a session runs, uses the context whose cancellation requests the shutdown (or a value derived from it): after the shutdown request the operation fails or is abandoned, so an open session cannot complete its dialogue (its message is not stored and acknowledged, Drain returns early or the client is cut off)", shortFn(fn))
					return
				}
			}
		})
	}
	if nBad == 0 {
		var fl []string
		for f := range fields {
			fl = append(fl, f.Name())
		}
		sort.Strings(fl)
		r.Ok(rule, name+":session-code", p.Pos(root.Pos()), "the shutdown context reaches %d values and fields %v of the package; none is used in the %d functions a session runs", len(tainted), fl, len(list))
	}
}
