package rules

import (
	"go/token"
	"go/types"
	"sort"
	"strings"

	"golang.org/x/tools/go/ssa"

	"ibcheck/eng"
)

func init() { Registry["C11"] = checkC11 }

type fsModel struct {
	c         *Ctx
	fIndex    *types.Var
	fPath     *types.Var
	fRoot     *types.Var
	rawPath   *ssa.Function
	rawFns    map[*ssa.Function]bool
	fns       []*ssa.Function
	effects   []fsEffect
	writeIdx  *ssa.Function
	removeDir *ssa.Function
	evMemo    map[*ssa.Function][]fsEv
}

// fsEffect is one file-system mutation. When the primitive sits in a helper whose path is a
// parameter or a carrier field, the effect is attributed to the helper's call in the caller
// (fn, call) with the path classified in that context; prim is the primitive itself.
type fsEffect struct {
	fn    *ssa.Function
	call  *ssa.Call
	prim  *ssa.Call
	chain []*ssa.Call
	op    string   // Create, Remove, ...
	class []string // path class per path argument
}

// pathArg returns the i-th path argument of the primitive, resolved in the effect's context.
func (e fsEffect) pathArg(i int) ssa.Value {
	v, _ := ctxValue(e.prim.Call.Args[i], envOfChain(e.chain))
	return v
}

// fsAllowed is the confirmed inventory of (operation, path class) pairs.
var fsAllowed = map[string]map[string]bool{
	"Create":    {"raw": true, "derived(index)": true},
	"Remove":    {"raw": true, "derived(index)": true, "index": true, "param": true},
	"RemoveAll": {"dir": true},
	"MkdirAll":  {"dir": true, "derived": true},
	"Rename":    {"derived(index)→index": true},
}

var fsMutators = map[string]int{ // name -> number of path args
	"os.Create": 1, "os.OpenFile": 1, "os.WriteFile": 1, "os.Truncate": 1, "os.Rename": 2,
	"os.Remove": 1, "os.RemoveAll": 1, "os.Mkdir": 1, "os.MkdirAll": 1, "os.Chmod": 1,
	"os.Symlink": 2, "os.Link": 2, "os.Chtimes": 1,
	"os.CreateTemp": 1, "os.MkdirTemp": 1, // the path argument is the directory the new entry is made in
}

func (c *Ctx) fsModel() *fsModel {
	p := c.P
	m := &fsModel{c: c}
	m.fIndex = p.Field("pkg/storage/file", "mbox", "indexPath")
	m.fPath = p.Field("pkg/storage/file", "mbox", "path")
	m.fRoot = p.OptField("pkg/storage/file", "Store", "mailPath")
	m.rawPath = p.Method("pkg/storage/file", "Message", "rawPath")
	m.writeIdx = p.OptMethod("pkg/storage/file", "mbox", "writeIndex")
	if m.writeIdx == nil {
		// by role: the method of mbox that encodes the index (creates the gob encoder), when the
		// old writeIndex was split into "save a non-empty index" and "drop the empty mailbox"
		var cands []*ssa.Function
		for _, fn := range pkgFuncs(p, "pkg/storage/file") {
			if fn.Parent() != nil || fn.Signature.Recv() == nil {
				continue
			}
			has := false
			eng.EachInstr(fn, func(in ssa.Instruction) {
				if call, ok := in.(*ssa.Call); ok && eng.CalleeName(call.Common()) == "encoding/gob.NewEncoder" {
					has = true
				}
			})
			if has {
				cands = append(cands, fn)
			}
		}
		if len(cands) == 1 {
			m.writeIdx = cands[0]
		} else {
			p.Unresolved = append(p.Unresolved, "pkg/storage/file.mbox.writeIndex")
		}
	}
	m.removeDir = p.Method("pkg/storage/file", "mbox", "removeDir")
	if m.fIndex == nil || m.fPath == nil || m.rawPath == nil || m.writeIdx == nil || m.removeDir == nil {
		return nil
	}
	m.fns = pkgFuncs(p, "pkg/storage/file")
	for _, fn := range m.fns {
		fn := fn
		eng.EachInstr(fn, func(in ssa.Instruction) {
			call, ok := in.(*ssa.Call)
			if !ok {
				return
			}
			name := eng.CalleeName(call.Common())
			n, ok := fsMutators[name]
			if !ok {
				return
			}
			op := strings.TrimPrefix(name, "os.")
			if name == "os.OpenFile" {
				op = openFileKind(call)
			}
			m.liftEffect(fn, call, nil, op, n, 0)
		})
	}
	return m
}

// liftEffect records the primitive prim (reached from fn through chain): if its path class
// is open (depends on a parameter or an unresolved field) and fn is a helper with static
// callers in the package, the effect is re-evaluated at each caller instead.
func (m *fsModel) liftEffect(fn *ssa.Function, prim *ssa.Call, chain []*ssa.Call, op string, nPaths int, depth int) {
	var cls []string
	env := envOfChain(chain)
	open := false
	for i := 0; i < nPaths; i++ {
		k := m.classIn(prim.Call.Args[i], env, 0)
		cls = append(cls, k)
		if strings.Contains(k, "param") || strings.Contains(k, "unknown") {
			open = true
		}
	}
	at := prim
	if len(chain) > 0 {
		at = chain[0]
	}
	record := func() {
		m.effects = append(m.effects, fsEffect{fn: fn, call: at, prim: prim, chain: chain, op: op, class: cls})
	}
	if !open || fsAllowed[op][strings.Join(cls, "→")] || depth >= 3 || fn.Parent() != nil {
		record()
		return
	}
	var sites []*ssa.Call
	for _, cs := range m.c.P.StaticCallSites(fn) {
		if sc, ok := cs.Instr.(*ssa.Call); ok && eng.FuncPkgPath(sc.Parent()) == eng.Mod+"/pkg/storage/file" {
			sites = append(sites, sc)
		} else {
			record() // called from outside the package, deferred or as a goroutine: not liftable
			return
		}
	}
	if len(sites) == 0 {
		record()
		return
	}
	for _, sc := range sites {
		m.liftEffect(sc.Parent(), prim, append([]*ssa.Call{sc}, chain...), op, nPaths, depth+1)
	}
}

// pathClass classifies a path-valued expression (without calling context).
func (m *fsModel) pathClass(v ssa.Value, depth int) string { return m.classIn(v, nil, depth) }

// classIn classifies a path-valued expression evaluated in the calling context env.
func (m *fsModel) classIn(v ssa.Value, env *fsEnv, depth int) string {
	if depth > 6 {
		return "unknown"
	}
	if prm, ok := v.(*ssa.Parameter); ok && env != nil {
		if w, e2 := ctxValue(prm, env); w != v {
			return m.classIn(w, e2, depth+1)
		}
	}
	if f := eng.LoadedField(v); f != nil {
		switch {
		case eng.SameField(f, m.fIndex):
			return "index"
		case eng.SameField(f, m.fPath):
			return "dir"
		case m.fRoot != nil && eng.SameField(f, m.fRoot):
			return "root"
		}
	}
	switch x := v.(type) {
	case *ssa.Call:
		if m.isRawPathFn(eng.StaticCallee(x.Common())) {
			return "raw"
		}
		switch eng.CalleeName(x.Common()) {
		case "path/filepath.Dir":
			return "parent(" + m.classIn(x.Call.Args[0], env, depth+1) + ")"
		case "path/filepath.Join":
			return "derived"
		}
		if g := eng.StaticCallee(x.Common()); g != nil && eng.FuncPkgPath(g) == eng.Mod+"/pkg/storage/file" {
			return "derived" // package helper computing a path (getMailPath)
		}
	case *ssa.BinOp:
		if x.Op == token.ADD {
			l := m.classIn(x.X, env, depth+1)
			if _, isC := eng.ConstString(x.Y); isC && l != "unknown" {
				return "derived(" + l + ")"
			}
			return "derived"
		}
	case *ssa.Parameter:
		return "param"
	case *ssa.Phi:
		cls := ""
		for _, e := range x.Edges {
			k := m.classIn(e, env, depth+1)
			if cls == "" {
				cls = k
			} else if cls != k {
				return "unknown"
			}
		}
		return cls
	case *ssa.UnOp:
		if ad := eng.LoadAddr(v); ad != nil {
			if cell := eng.CellOf(ad); cell != nil && !eng.CellEscapes(cell) {
				cls := ""
				for _, st := range eng.CellStores(cell) {
					k := m.classIn(st.Val, env, depth+1)
					if cls == "" {
						cls = k
					} else if cls != k {
						return "unknown"
					}
				}
				if cls != "" {
					return cls
				}
			}
		}
	}
	if sv, e2, ok := carrierField(v, env); ok {
		return m.classIn(sv, e2, depth+1)
	}
	return "unknown"
}

func knownNilAt(v ssa.Value, at *ssa.BasicBlock) bool { return eng.KnownNil(v, at) }

func checkC11(c *Ctx) {
	r, p := c.R, c.P
	r.Explanation = "Decides that the file store's write protocol has the crash-safe shape, by inventorying every file-system mutation in pkg/storage/file with the path class of its argument (index = mbox.indexPath, raw = Message.rawPath(), dir = mbox.path, derived(index) = indexPath+const) and checking ordering by dominance: (D1) nothing truncates or writes the live index in place — the new index is created at a derived path, flushed and closed successfully, then installed by os.Rename onto the index path; (D2) in AddMessage the raw file is created, copied, flushed and closed before the index update, and every error return after the raw file exists removes it; (D3) a single-message removal updates the index before unlinking the raw file; (D4) when a mailbox directory is removed the index is unlinked before anything else; (D5) every fs-mutating call is in the classified inventory (a new one is undecided)."
	r.NotDecided = []string{"behaviour at each concrete crash point (crash points are not enumerated)", "partial writes of the temporary file", "fsync / power-loss durability", "that readers tolerate leftover temp or orphan raw files"}
	r.Assumptions = []string{"os.Rename within one directory replaces the target atomically (POSIX)", "a mailbox whose index is absent reads as empty (readIndex: Stat fails → loaded, no error)"}
	r.Rule("C11/ATOMIC/index", "no os.Create/OpenFile/WriteFile/Truncate targets mbox.indexPath; the index is written to a derived path and installed by os.Rename(derived, indexPath) that is dominated by a successful Flush and Close of the temporary file")
	r.Rule("C11/ORDER/add", "AddMessage: Create(raw) → io.Copy → Flush → Close dominate the index update; every error return after the raw file exists passes os.Remove(raw)")
	r.Rule("C11/ORDER/remove", "removeMessage: the index update dominates os.Remove(raw)")
	r.Rule("C11/ORDER/purge", "removeDir: os.Remove(indexPath) dominates os.RemoveAll(dir) — an index listing messages whose raw files are gone must never be observable")
	r.Rule("C11/LAYOUT/root-holds-directories", "no file-creating call (Create, CreateTemp, OpenFile, WriteFile) targets the mail root itself: whatever a crash leaves there is visited as a mailbox directory")
	r.Rule("C11/INVENTORY", "every file-system mutating call in pkg/storage/file has a classified (operation, path class) pair from the confirmed table")
	m := c.fsModel()
	if m == nil {
		return
	}
	allowed := fsAllowed
	nEff := 0
	for _, e := range m.effects {
		nEff++
		cls := strings.Join(e.class, "→")
		cons := e.op + "(" + cls + ")@" + shortFn(e.fn)
		site := p.InstrPos(e.call)
		if e.op == "Create" || e.op == "WriteFile" || e.op == "Truncate" || e.op == "OpenFile" {
			if e.class[0] == "index" {
				r.Bad("C11/ATOMIC/index", cons, site, "os.%s(mbox.indexPath) truncates the live index before the new content is written: a crash in between leaves an undecodable index, which fails every operation on the mailbox and aborts VisitMailboxes for the whole store", e.op)
				continue
			}
		}
		if (e.op == "CreateTemp" || e.op == "Create" || e.op == "WriteFile" || strings.HasPrefix(e.op, "OpenFile")) && (e.class[0] == "root" || e.class[0] == "derived(root)") {
			r.Bad("C11/LAYOUT/root-holds-directories", cons, site, "os.%s makes a regular file directly under the mail root: the root's entries are walked as hash directories by VisitMailboxes, so a process that dies while that file exists (before it is renamed or removed) leaves a store whose every visit — and so every retention scan — fails with 'not a directory'", e.op)
			continue
		}
		if e.op == "OpenFile:excl" && strings.HasPrefix(cls, "derived(index)") {
			r.Bad("C11/ATOMIC/index", cons, site, "the temporary index is opened with O_EXCL: a temporary file left behind by a write that was interrupted (process killed between creating it and the rename) makes every later index write of that mailbox fail with 'file exists' — after a restart the mailbox accepts no delivery, mark or removal")
			continue
		}
		if allowed[e.op][cls] {
			r.Ok("C11/INVENTORY", cons, site, "classified")
		} else {
			r.Undecided("C11/INVENTORY", cons, site, "file-system mutation os.%s on path class %q is not in the confirmed inventory", e.op, cls)
		}
	}
	r.Floor("C11/INVENTORY", "fs-mutating calls in pkg/storage/file", nEff, 1)

	// D1 positive part: rename protocol
	var renames []fsEffect
	for _, e := range m.effects {
		if e.op == "Rename" {
			renames = append(renames, e)
		}
	}
	inPlace := false
	for _, e := range m.effects {
		if (e.op == "Create" || e.op == "WriteFile" || e.op == "OpenFile" || e.op == "Truncate") && e.class[0] == "index" {
			inPlace = true
		}
	}
	// the live index is unlinked only as the first step of removing the whole mailbox: an unlink
	// that is followed by something else (the rename that installs the new index, say) leaves a
	// window in which a directory full of raw files has no index, and a mailbox without index
	// reads as empty
	for _, e := range m.effects {
		if e.op != "Remove" || e.class[0] != "index" {
			continue
		}
		cons := "unlink@" + shortFn(e.fn)
		followed := false
		for _, e2 := range m.effects {
			if e2.op == "RemoveAll" && e2.class[0] == "dir" && e2.fn == e.fn && eng.Dominates(e.call, e2.call) {
				followed = true
			}
		}
		if followed {
			r.Ok("C11/ATOMIC/index", cons, p.InstrPos(e.call), "the index is unlinked only ahead of removing the mailbox directory")
		} else {
			r.Bad("C11/ATOMIC/index", cons, p.InstrPos(e.call), "the live index is unlinked at %s without the mailbox directory being removed next: a stop between this unlink and whatever replaces the index leaves every raw file in place and no index, and the mailbox reads as empty after the restart (the next delivery makes the loss permanent)", p.InstrPos(e.call))
		}
	}
	if len(renames) == 0 {
		if !inPlace {
			r.Bad("C11/ATOMIC/index", "install", p.Pos(m.writeIdx.Pos()), "the index is neither written in place nor installed by rename: no writer found")
		}
	}
	for _, rn := range renames {
		cons := "install@" + shortFn(rn.fn)
		site := p.InstrPos(rn.call)
		if rn.class[0] != "derived(index)" || rn.class[1] != "index" {
			r.Bad("C11/ATOMIC/index", cons, site, "os.Rename(%s, %s): the index must be installed from a derived temporary path onto mbox.indexPath", rn.class[0], rn.class[1])
			continue
		}
		// the temp file: Create(derived(index)) in the function that renames (the rename and the
		// write may both sit in a helper taking the path as a parameter: the helper is then
		// examined with the arguments of the call chain), executed and successful on every
		// path to the rename — directly or inside a helper that reports success only after the
		// operation succeeded
		anchor := ssa.Instruction(rn.prim)
		evs := m.eventsCtx(rn.prim.Parent(), rn.chain)
		good := func(ev fsEv) bool {
			if !ev.direct && !ev.onSuccess {
				return false
			}
			c, ok := ev.at.(*ssa.Call)
			if !ok {
				return false
			}
			ev2 := errResultOf(c)
			if eng.Dominates(ev.at, anchor) && (ev2 == nil && ev.direct && ev.op == "NewWriter" || ev2 != nil && knownNilAt(ev2, anchor.Block())) {
				return true
			}
			// path-sensitive: an error variable re-assigned along the way
			return eng.SucceededBefore(ev.at, ev2, anchor)
		}
		var create *fsEv
		for i, ev := range evs {
			if ev.op == "Create" && len(ev.class) == 1 && ev.class[0] == "derived(index)" && good(ev) {
				create = &evs[i]
			}
		}
		if create == nil {
			r.Bad("C11/ATOMIC/index", cons, site, "no os.Create of the temporary index dominates the rename")
			continue
		}
		fileV := fileOfCreate(create.at.(*ssa.Call))
		flushOK, closeOK := false, false
		for _, ev := range evs {
			switch ev.op {
			case "Flush":
				if good(ev) {
					flushOK = true
				}
			case "Close":
				if good(ev) && sameFile(ev, *create, fileV) {
					closeOK = true
				}
			}
		}
		switch {
		case !flushOK:
			r.Bad("C11/ATOMIC/index", cons, site, "the rename is not dominated by a successful (*bufio.Writer).Flush of the temporary index: a short index can be installed")
		case !closeOK:
			r.Bad("C11/ATOMIC/index", cons, site, "the rename is not dominated by a successful Close of the temporary index file")
		default:
			r.Ok("C11/ATOMIC/index", cons, site, "index written to indexPath+suffix, flushed and closed without error, then renamed onto indexPath")
		}
	}

	c.c11Add(m)
	c.c11Remove(m)
	c.c11Purge(m)
	c.c11AbsentIndex(m)
}

// c11AbsentIndex: the crash-safe protocol leaves, at some crash points, a mailbox directory
// without an index (first delivery before the first rename; removeDir after unlinking the
// index). Readers must take exactly "the INDEX is absent" for "empty mailbox": an existence
// test on anything else turns those states into errors that make the mailbox unusable and
// abort VisitMailboxes.
func (c *Ctx) c11AbsentIndex(m *fsModel) {
	r, p := c.R, c.P
	r.Rule("C11/READ/absent-index", "on the index load path every existence probe (os.Stat/Lstat) is made on mbox.indexPath")
	readIndex := p.Method("pkg/storage/file", "mbox", "readIndex")
	if readIndex == nil {
		return
	}
	n := 0
	ord := map[string]int{}
	var fns []*ssa.Function
	for fn := range p.SyncReach(readIndex) {
		if eng.FuncPkgPath(fn) == eng.Mod+"/pkg/storage/file" {
			fns = append(fns, fn)
		}
	}
	sortFuncs(fns)
	for _, fn := range fns {
		eng.EachInstr(fn, func(in ssa.Instruction) {
			call, ok := in.(*ssa.Call)
			if !ok {
				return
			}
			switch eng.CalleeName(call.Common()) {
			case "os.Stat", "os.Lstat":
			default:
				return
			}
			n++
			cls := m.pathClass(call.Call.Args[0], 0)
			cons := siteCons(p, in, ord, "probe")
			if cls == "index" {
				r.Ok("C11/READ/absent-index", cons, p.InstrPos(in), "existence probe on the index path")
			} else {
				r.Bad("C11/READ/absent-index", cons, p.InstrPos(in), "the load path probes the existence of a path of class %q instead of the index: after a crash that left the directory without an index (first delivery, or removeDir after unlinking the index) the mailbox no longer reads as empty — listing, delivery and VisitMailboxes fail on it", cls)
			}
		})
	}
	r.Floor("C11/READ/absent-index", "existence probes on the index load path", n, 1)
}

// succeedsOnlyAfter: every return of g whose error result may be nil either returns the
// result of a call of op itself, or is dominated by a call of op known to have returned nil.
func succeedsOnlyAfter(g *ssa.Function, op string) bool {
	if len(g.Blocks) == 0 {
		return false
	}
	var ops []*ssa.Call
	eng.EachInstr(g, func(in ssa.Instruction) {
		if call, ok := in.(*ssa.Call); ok && eng.CalleeName(call.Common()) == op {
			ops = append(ops, call)
		}
	})
	if len(ops) == 0 {
		return false
	}
	okAll, n := true, 0
	eng.EachInstr(g, func(in ssa.Instruction) {
		ret, ok := in.(*ssa.Return)
		if !ok || eng.IsRecoverBlock(ret.Block()) {
			return
		}
		res := eng.ReturnResults(ret)
		if len(res) == 0 {
			okAll = false
			return
		}
		e := res[len(res)-1]
		if definitelyNonNilErr(e) || eng.KnownNonNil(e, ret.Block()) {
			return
		}
		n++
		for _, c := range ops {
			if e == ssa.Value(c) || eng.Dominates(c, ret) && eng.KnownNil(c, ret.Block()) {
				return
			}
		}
		okAll = false
	})
	return okAll && n > 0
}

// rawWriteSeq checks, in fn, that os.Create(raw) → io.Copy → Flush → Close dominate the
// anchor instruction and are all known to have succeeded in the anchor's block.
func (c *Ctx) rawWriteSeq(m *fsModel, fn *ssa.Function, anchor ssa.Instruction) (create *ssa.Call, problem string) {
	var copyC, flush, closeC *ssa.Call
	var createEv *fsEv
	evs := m.events(fn)
	usable := func(ev fsEv) bool { return ev.direct || ev.onSuccess }
	for i, ev := range evs {
		c, ok := ev.at.(*ssa.Call)
		if !ok || !usable(ev) {
			continue
		}
		switch ev.op {
		case "Create":
			if len(ev.class) == 1 && ev.class[0] == "raw" {
				create, createEv = c, &evs[i]
			}
		case "Copy":
			copyC = c
		case "Flush":
			flush = c
		}
	}
	if create == nil || copyC == nil || flush == nil {
		return create, "no create/copy/flush sequence for the raw file"
	}
	fileV := fileOfCreate(create)
	// succeeded: executed and successful on every path to the anchor — by dominance and a
	// dominating nil test, or path-sensitively (an error variable re-assigned along the way:
	// `size, err := io.Copy(w, r); if err == nil { err = w.Flush() }; if err != nil { … return }`)
	succeeded := func(c *ssa.Call) bool {
		e := errResultOf(c)
		if e == nil {
			return false
		}
		if eng.Dominates(c, anchor) && knownNilAt(e, anchor.Block()) {
			return true
		}
		return c.Parent() == anchor.Parent() && eng.SucceededBefore(c, e, anchor)
	}
	for _, ev := range evs {
		c, ok := ev.at.(*ssa.Call)
		if !ok || ev.op != "Close" || !usable(ev) || !sameFile(ev, *createEv, fileV) {
			continue
		}
		if succeeded(c) {
			closeC = c
		}
	}
	inOrder := eng.Dominates(create, copyC) && eng.Dominates(copyC, flush) && eng.Dominates(flush, anchor) ||
		create.Parent() == anchor.Parent() && eng.OrderedBefore([]ssa.Instruction{create, copyC, flush}, anchor)
	switch {
	case !inOrder:
		return create, "create → copy → flush → index update are not in dominance order: the index can list a message whose body is not fully on disk"
	case !succeeded(copyC):
		return create, "the index update is reachable after a failed io.Copy"
	case !succeeded(flush):
		return create, "the index update is reachable after a failed Flush"
	case closeC == nil:
		return create, "the index update is not dominated by a successful Close of the raw file"
	}
	return create, ""
}

// errResultOf returns the error result of a call (the call itself, or the extract of its
// last tuple component when that is an error).
func errResultOf(call *ssa.Call) ssa.Value {
	if tup, ok := call.Type().(*types.Tuple); ok {
		n := tup.Len()
		if n == 0 || !isErrorType(tup.At(n-1).Type()) {
			return nil
		}
		for _, ref := range *call.Referrers() {
			if e, ok := ref.(*ssa.Extract); ok && e.Index == n-1 {
				return e
			}
		}
		return nil
	}
	if isErrorType(call.Type()) {
		return call
	}
	return nil
}

// fileOfCreate: the first result of a direct os.Create call.
func fileOfCreate(create *ssa.Call) ssa.Value {
	for _, ref := range *create.Referrers() {
		if e, ok := ref.(*ssa.Extract); ok && e.Index == 0 {
			return e
		}
	}
	return nil
}

// sameFile: the Close event closes the file the Create event created. Direct calls: the
// closed value is the created one. Through a carrier: the close helper is called on the value
// the creating helper returned, and it closes the field in which the constructor stored the
// created file.
func sameFile(cl, cr fsEv, fileV ssa.Value) bool {
	if cl.direct && cr.direct {
		return fileV != nil && resolveCell(cl.prim.Call.Args[0]) == fileV
	}
	env := envOfChain(cl.chain)
	v, _ := ctxValue(cl.prim.Call.Args[0], env)
	if ex, ok := v.(*ssa.Extract); ok && ex.Index == 0 {
		if c, ok := ex.Tuple.(*ssa.Call); ok && c == cr.prim {
			return true
		}
	}
	return fileV != nil && v == fileV
}

// updatesIndex: g is writeIndex, or a helper of the package whose every success return follows
// a successful index update (commitMessage: append, writeIndex, report its error).
func (m *fsModel) updatesIndex(g *ssa.Function, depth int) bool {
	if g == nil {
		return false
	}
	if g == m.writeIdx {
		return true
	}
	if depth > 2 || g.Parent() != nil || len(g.Blocks) == 0 || eng.FuncPkgPath(g) != eng.FuncPkgPath(m.writeIdx) {
		return false
	}
	res := g.Signature.Results()
	if res.Len() == 0 || !isErrorType(res.At(res.Len()-1).Type()) {
		return false
	}
	var upd []*ssa.Call
	eng.EachInstr(g, func(in ssa.Instruction) {
		if call, ok := in.(*ssa.Call); ok && in.Parent() == g && m.updatesIndex(eng.StaticCallee(call.Common()), depth+1) {
			upd = append(upd, call)
		}
	})
	if len(upd) == 0 {
		return false
	}
	okAll, n := true, 0
	eng.EachInstr(g, func(in ssa.Instruction) {
		ret, ok := in.(*ssa.Return)
		if !ok || in.Parent() != g || eng.IsRecoverBlock(ret.Block()) {
			return
		}
		rr := eng.ReturnResults(ret)
		e := rr[len(rr)-1]
		if definitelyNonNilErr(e) || eng.KnownNonNil(e, ret.Block()) {
			return
		}
		n++
		one := false
		for _, u := range upd {
			ev := errResultOf(u)
			if ev != nil && eng.Dominates(u, ret) && (knownNilAt(ev, ret.Block()) || e == ev) {
				one = true
			}
		}
		if !one {
			okAll = false
		}
	})
	return okAll && n > 0
}

func (c *Ctx) c11Add(m *fsModel) {
	r, p := c.R, c.P
	add := p.Method("pkg/storage/file", "Store", "AddMessage")
	if add == nil {
		return
	}
	cons := shortFn(add)
	var widx *ssa.Call
	eng.EachInstr(add, func(in ssa.Instruction) {
		if call, ok := in.(*ssa.Call); ok && in.Parent() == add && m.updatesIndex(eng.StaticCallee(call.Common()), 0) {
			widx = call
		}
	})
	// AddMessage may hand the whole delivery to another function of the package (through a
	// lock gate's closure: mb.update(func() error { id, err = mb.addMessage(m) … })): the
	// sequence is then judged in the function that performs the index update
	if widx == nil {
		var cands []*ssa.Function
		for g := range p.SyncReach(add) {
			if g == add || g == m.writeIdx || eng.FuncPkgPath(g) != eng.FuncPkgPath(add) {
				continue
			}
			has := false
			eng.EachInstr(g, func(in ssa.Instruction) {
				if call, ok := in.(*ssa.Call); ok && in.Parent() == g && eng.StaticCallee(call.Common()) == m.writeIdx {
					has = true
				}
			})
			if has {
				cands = append(cands, g)
			}
		}
		// the one that also reaches the raw-file creation
		var pick []*ssa.Function
		for _, g := range cands {
			for _, e := range m.effects {
				if e.op == "Create" && e.class[0] == "raw" && p.SyncReach(g)[e.fn] {
					pick = append(pick, g)
					break
				}
			}
		}
		if len(pick) == 1 {
			add = pick[0]
			eng.EachInstr(add, func(in ssa.Instruction) {
				if call, ok := in.(*ssa.Call); ok && in.Parent() == add && m.updatesIndex(eng.StaticCallee(call.Common()), 0) {
					widx = call
				}
			})
		}
	}
	// the function that creates the raw file: AddMessage itself or a package helper it calls
	var W *ssa.Function
	for _, e := range m.effects {
		if e.op == "Create" && e.class[0] == "raw" && p.SyncReach(add)[e.fn] {
			W = e.fn
		}
	}
	// removals the failing operation performed itself (a helper that discards the file when
	// it fails) cover the error returns taken on its failure edge
	coveredByFailingOp := func(fn *ssa.Function, ret *ssa.Return) bool {
		for _, ev := range m.events(fn) {
			if ev.op != "Remove" || len(ev.class) != 1 || ev.class[0] != "raw" || ev.direct || !ev.onFailure {
				continue
			}
			if c, ok := ev.at.(*ssa.Call); ok {
				if e := errResultOf(c); e != nil && eng.Dominates(c, ret) && eng.KnownNonNil(e, ret.Block()) {
					return true
				}
			}
		}
		return false
	}
	if widx == nil || W == nil {
		r.Bad("C11/ORDER/add", cons, p.Pos(add.Pos()), "AddMessage no longer has the create/copy/flush/index-update sequence (create=%v writeIndex=%v)", W != nil, widx != nil)
		return
	}
	isRmRaw := func(in ssa.Instruction) bool {
		if _, ok := in.(*ssa.Call); !ok {
			return false
		}
		for _, ev := range m.eventsAt(in) {
			if ev.op == "Remove" && len(ev.class) == 1 && ev.class[0] == "raw" && (ev.direct || ev.always) {
				return true
			}
		}
		return false
	}
	errReturn := func(in ssa.Instruction) bool {
		ret, ok := in.(*ssa.Return)
		if !ok || eng.IsRecoverBlock(ret.Block()) {
			return false
		}
		res := eng.ReturnResults(ret)
		if len(res) == 0 || eng.IsNilConst(res[len(res)-1]) {
			return false
		}
		return !coveredByFailingOp(ret.Parent(), ret)
	}
	// a deferred closure that removes the raw file whenever the function's named error result
	// is non-nil cleans up every error return it dominates
	deferredCleanup := func(fn *ssa.Function) map[*ssa.Defer]bool {
		out := map[*ssa.Defer]bool{}
		for _, d := range eng.Defers(fn) {
			mc, ok := d.Call.Value.(*ssa.MakeClosure)
			if !ok {
				continue
			}
			g, _ := mc.Fn.(*ssa.Function)
			if g == nil || len(g.Blocks) == 0 {
				continue
			}
			// in g: from the `err != nil` true edge (err a captured variable of error type)
			// every path to return passes the removal
			for _, b := range g.Blocks {
				for k := 0; k < len(b.Succs) && len(b.Succs) == 2; k++ {
					rel, ok := eng.EdgeRel(b, k)
					if !ok || rel.Op != token.NEQ || !eng.IsNilConst(rel.Y) {
						continue
					}
					u, ok := rel.X.(*ssa.UnOp)
					if !ok {
						continue
					}
					fv, ok := u.X.(*ssa.FreeVar)
					if !ok || !types.Identical(fv.Type().(*types.Pointer).Elem(), types.Universe.Lookup("error").Type()) {
						continue
					}
					// the captured variable must be fn's named error result
					isResult := false
					for i, bnd := range mc.Bindings {
						if g.FreeVars[i] == fv {
							if al, ok := bnd.(*ssa.Alloc); ok && al.Comment != "" {
								res := fn.Signature.Results()
								for ri := 0; ri < res.Len(); ri++ {
									if res.At(ri).Name() == al.Comment && types.Identical(res.At(ri).Type(), types.Universe.Lookup("error").Type()) {
										isResult = true
									}
								}
							}
						}
					}
					if !isResult {
						continue
					}
					if (&eng.Search{Target: eng.IsReturnOf(g), Avoid: isRmRaw}).FromBlockStart(b.Succs[k]) == nil {
						out[d] = true
					}
				}
			}
		}
		return out
	}
	cleanup := func(fn *ssa.Function, errV ssa.Value, what ssa.Instruction) bool {
		dc := deferredCleanup(fn)
		if len(dc) > 0 {
			// error returns after a dominating cleanup defer are covered
			okAll := true
			start0 := eng.NilEdgeOf(fn, errV)
			if start0 != nil {
				leak := (&eng.Search{Target: errReturn, Avoid: func(in ssa.Instruction) bool {
					if isRmRaw(in) {
						return true
					}
					if rd, ok := in.(*ssa.RunDefers); ok {
						for d := range dc {
							if eng.Dominates(d, rd) {
								return true
							}
						}
					}
					return false
				}}).FromBlockStart(start0)
				if leak != nil {
					okAll = false
				}
				if okAll {
					return true
				}
			}
		}
		start := eng.NilEdgeOf(fn, errV)
		if start == nil {
			r.Undecided("C11/ORDER/add", cons+":cleanup", p.InstrPos(what), "cannot find the success edge of the raw-file creation in %s", shortFn(fn))
			return false
		}
		if leak := (&eng.Search{Target: errReturn, Avoid: isRmRaw}).FromBlockStart(start); leak != nil {
			r.Bad("C11/ORDER/add", cons+":cleanup", p.InstrPos(leak), "an error return after the raw file was created does not remove it: an orphan body stays on disk")
			return false
		}
		return true
	}
	errOf := func(call *ssa.Call) ssa.Value {
		if _, isTuple := call.Type().(*types.Tuple); !isTuple {
			return call
		}
		n := call.Type().(*types.Tuple).Len()
		for _, ref := range *call.Referrers() {
			if e, ok := ref.(*ssa.Extract); ok && e.Index == n-1 {
				return e
			}
		}
		return nil
	}
	// once the raw file exists nothing may remove the mailbox directory before the index
	// names the new message (an eviction that empties the mailbox removes the directory)
	{
		var start ssa.Instruction
		eng.EachInstr(add, func(in ssa.Instruction) {
			call, ok := in.(*ssa.Call)
			if !ok {
				return
			}
			if g := eng.StaticCallee(call.Common()); g == W && W != add {
				start = in
			}
			if W == add {
				for _, ev := range m.eventsAt(in) {
					if ev.op == "Create" && len(ev.class) == 1 && ev.class[0] == "raw" {
						start = in
					}
				}
			}
		})
		if start != nil {
			rmDir := func(in ssa.Instruction) bool {
				call, ok := in.(*ssa.Call)
				if !ok || in == ssa.Instruction(widx) {
					return false
				}
				g := eng.StaticCallee(call.Common())
				return g != nil && eng.FuncPkgPath(g) == eng.Mod+"/pkg/storage/file" && (g == m.removeDir || reachesSync(g, m.removeDir))
			}
			if hit := (&eng.Search{Target: rmDir, Avoid: func(in ssa.Instruction) bool { return in == ssa.Instruction(widx) }}).After(start); hit != nil {
				r.Bad("C11/ORDER/add", cons+":no-removal-in-between", p.InstrPos(hit), "between writing the raw file and updating the index AddMessage calls %s, which can remove the mailbox directory (when it empties the mailbox, e.g. cap 1): the raw file just written is deleted and the index then lists a message without content", eng.CalleeName(hit.(*ssa.Call).Common()))
			} else {
				r.Ok("C11/ORDER/add", cons+":no-removal-in-between", p.InstrPos(start), "nothing between the raw write and the index update can remove the mailbox directory")
			}
		}
	}
	if W == add {
		create, prob := c.rawWriteSeq(m, add, widx)
		if prob != "" {
			r.Bad("C11/ORDER/add", cons, p.InstrPos(widx), "%s", prob)
		} else {
			r.Ok("C11/ORDER/add", cons, p.InstrPos(widx), "raw file created, copied, flushed and closed successfully before the index is updated")
		}
		if create == nil {
			return
		}
		if cleanup(add, errOf(create), create) {
			r.Ok("C11/ORDER/add", cons+":cleanup", p.InstrPos(create), "every error return after os.Create(raw) passes os.Remove(raw)")
		}
		return
	}
	// helper form: W writes the raw file and reports success only after the whole sequence;
	// AddMessage updates the index only after W succeeded
	var cw *ssa.Call
	eng.EachInstr(add, func(in ssa.Instruction) {
		if call, ok := in.(*ssa.Call); ok && eng.StaticCallee(call.Common()) == W {
			cw = call
		}
	})
	if cw == nil {
		r.Undecided("C11/ORDER/add", cons, p.Pos(add.Pos()), "the raw file is created in %s, which AddMessage does not call directly", shortFn(W))
		return
	}
	prob := ""
	var create *ssa.Call
	nSucc := 0
	eng.EachInstr(W, func(in ssa.Instruction) {
		ret, ok := in.(*ssa.Return)
		if !ok || eng.IsRecoverBlock(ret.Block()) {
			return
		}
		res := eng.ReturnResults(ret)
		if len(res) == 0 {
			prob = shortFn(W) + " does not report errors"
			return
		}
		e := res[len(res)-1]
		if definitelyNonNilErr(e) || eng.KnownNonNil(e, ret.Block()) {
			return
		}
		nSucc++
		cr, pr := c.rawWriteSeq(m, W, ret)
		create = cr
		if pr != "" && prob == "" {
			prob = "in " + shortFn(W) + " (success return at " + p.InstrPos(ret) + "): " + pr
		}
	})
	ev := errOf(cw)
	switch {
	case prob != "":
		r.Bad("C11/ORDER/add", cons, p.InstrPos(cw), "%s", prob)
	case nSucc == 0:
		r.Bad("C11/ORDER/add", cons, p.InstrPos(cw), "%s never reports success", shortFn(W))
	case ev == nil || !eng.Dominates(cw, widx) || !knownNilAt(ev, widx.Block()):
		r.Bad("C11/ORDER/add", cons, p.InstrPos(widx), "the index update is reachable without a successful %s: the index can list a message whose body is not fully on disk", shortFn(W))
	default:
		r.Ok("C11/ORDER/add", cons, p.InstrPos(widx), "raw file created, copied, flushed and closed successfully (in %s) before the index is updated", shortFn(W))
	}
	if create == nil || ev == nil {
		return
	}
	if cleanup(W, errOf(create), create) && cleanup(add, ev, cw) {
		r.Ok("C11/ORDER/add", cons+":cleanup", p.InstrPos(create), "every error return after os.Create(raw) passes os.Remove(raw), in %s and in AddMessage", shortFn(W))
	}
}

func (c *Ctx) c11Remove(m *fsModel) {
	r, p := c.R, c.P
	newMsg := p.Method("pkg/storage/file", "mbox", "newMessage")
	// every unlink of the raw file of an INDEXED message (anything but the message AddMessage
	// has just created and not yet indexed) must follow a successful index update
	n := 0
	ord := map[string]int{}
	for _, e := range m.effects {
		if e.op != "Remove" || e.class[0] != "raw" {
			continue
		}
		// the raw path is a call of rawPath(msg), possibly held in a local variable
		var rc *ssa.Call
		pa := e.pathArg(0)
		if x, ok := pa.(*ssa.Call); ok {
			rc = x
		} else if ad := eng.LoadAddr(pa); ad != nil {
			if cell := eng.CellOf(ad); cell != nil {
				for _, st := range eng.CellStores(cell) {
					if x, ok := st.Val.(*ssa.Call); ok && m.isRawPathFn(eng.StaticCallee(x.Common())) {
						rc = x
					}
				}
			}
		}
		if rc == nil {
			n++
			r.Undecided("C11/ORDER/remove", siteCons(p, e.call, ord, "unlink-indexed"), p.InstrPos(e.call), "cannot tell which message's raw file is unlinked here")
			continue
		}
		msg := p.Actual(rc.Call.Args[0])
		// fresh = result of the message constructor in this function, or the raw path of an id
		// that was generated here (a call of a function of the package that makes a string from
		// a time.Time) and names no indexed message yet
		fresh := false
		for _, a := range rc.Call.Args {
			if b, ok := a.Type().Underlying().(*types.Basic); !ok || b.Kind() != types.String {
				continue
			}
			if idc, ok := resolveCell(p.Actual(resolveCell(a))).(*ssa.Call); ok {
				if g := eng.StaticCallee(idc.Common()); g != nil && eng.FuncPkgPath(g) == eng.Mod+"/pkg/storage/file" {
					for _, ga := range idc.Call.Args {
						if n, ok := ga.Type().(*types.Named); ok && n.Obj().Pkg() != nil && n.Obj().Pkg().Path() == "time" && n.Obj().Name() == "Time" {
							fresh = true
						}
					}
				}
			}
		}
		for _, v := range append(eng.ValueAliases(msg), msg) {
			if ex, ok := v.(*ssa.Extract); ok {
				if call, ok := ex.Tuple.(*ssa.Call); ok && eng.StaticCallee(call.Common()) == newMsg {
					fresh = true
				}
			}
		}
		if ad := eng.LoadAddr(msg); ad != nil && !fresh {
			if cell := eng.CellOf(ad); cell != nil {
				for _, st := range eng.CellStores(cell) {
					if ex, ok := st.Val.(*ssa.Extract); ok {
						if call, ok := ex.Tuple.(*ssa.Call); ok && eng.StaticCallee(call.Common()) == newMsg {
							fresh = true
						}
					}
				}
			}
		}
		if fresh {
			continue
		}
		n++
		cons := siteCons(p, e.call, ord, "unlink-indexed")
		okDom := false
		// the unlink may sit in a helper (msg.removeRaw()): then the call of the helper is what
		// the index update has to precede, at its only call site
		fn, at := e.fn, ssa.Instruction(e.call)
		for depth := 0; depth < 3 && !okDom; depth++ {
			eng.EachInstr(fn, func(in ssa.Instruction) {
				call, ok := in.(*ssa.Call)
				if !ok || in.Parent() != fn || eng.StaticCallee(call.Common()) != m.writeIdx {
					return
				}
				if eng.Dominates(call, at) && knownNilAt(call, at.Block()) {
					okDom = true
				}
			})
			sites := p.StaticCallSites(fn)
			if okDom || fn.Parent() != nil || len(sites) != 1 || len(p.CallersOf(fn)) != 1 {
				break
			}
			at = sites[0].Instr.(ssa.Instruction)
			fn = at.Parent()
		}
		if okDom {
			r.Ok("C11/ORDER/remove", cons, p.InstrPos(e.call), "raw file is unlinked only after the index update succeeded")
		} else {
			r.Bad("C11/ORDER/remove", cons, p.InstrPos(e.call), "the raw file of an indexed message is unlinked without a preceding successful index update in %s: if the operation stops or fails afterwards the index still lists a message whose body is gone", shortFn(e.fn))
		}
	}
	r.Floor("C11/ORDER/remove", "unlinks of indexed messages' raw files", n, 1)
}

func (c *Ctx) c11Purge(m *fsModel) {
	r, p := c.R, c.P
	// a purge is one step: the index goes (with the mailbox) once. Removing the messages one
	// by one commits each removal separately, and a stop in between leaves a mailbox that was
	// purged neither completely nor not at all
	if purge := p.Method("pkg/storage/file", "Store", "PurgeMessages"); purge != nil {
		r.Rule("C11/ATOMIC/purge-one-step", "in file.Store.PurgeMessages (and what it runs) no call that updates or removes the index sits in a loop")
		internals := map[*ssa.Function]bool{}
		for g := range p.SyncReach(m.writeIdx) {
			internals[g] = true
		}
		for g := range p.SyncReach(m.removeDir) {
			internals[g] = true
		}
		var inLoop []string
		nCommit := 0
		for g := range p.SyncReach(purge) {
			if internals[g] || eng.FuncPkgPath(g) != eng.FuncPkgPath(purge) {
				continue
			}
			g := g
			eng.EachInstr(g, func(in ssa.Instruction) {
				call, ok := in.(*ssa.Call)
				if !ok {
					return
				}
				t := eng.StaticCallee(call.Common())
				if t == nil || !(t == m.writeIdx || t == m.removeDir || reachesSync(t, m.writeIdx) || reachesSync(t, m.removeDir)) {
					return
				}
				nCommit++
				if len(loopHeaders(call.Block())) > 0 {
					inLoop = append(inLoop, eng.CalleeName(call.Common())+" at "+p.InstrPos(in))
				}
			})
		}
		sort.Strings(inLoop)
		if len(inLoop) > 0 {
			r.Bad("C11/ATOMIC/purge-one-step", shortFn(purge), p.Pos(purge.Pos()), "the purge commits in several steps (%s, inside a loop): a stop part-way leaves some of the messages, so the purge has happened neither completely nor not at all", strings.Join(inLoop, "; "))
		} else {
			r.Ok("C11/ATOMIC/purge-one-step", shortFn(purge), p.Pos(purge.Pos()), "%d index-committing call(s), none in a loop", nCommit)
		}
		r.Floor("C11/ATOMIC/purge-one-step", "index-committing calls in the purge", nCommit, 1)
	}
	n := 0
	for _, e := range m.effects {
		if e.op != "RemoveAll" {
			continue
		}
		n++
		cons := shortFn(e.fn)
		okDom := false
		for _, f := range m.effects {
			if f.op == "Remove" && f.fn == e.fn && f.class[0] == "index" && eng.Dominates(f.call, e.call) {
				okDom = true
			}
		}
		if okDom {
			r.Ok("C11/ORDER/purge", cons, p.InstrPos(e.call), "index unlinked before the directory tree is removed")
		} else {
			r.Bad("C11/ORDER/purge", cons, p.InstrPos(e.call), "os.RemoveAll(mbox.path) gives no order between the index and the raw files: a crash part-way can leave an index that lists messages whose bodies are gone; unlink the index first")
		}
	}
	r.Floor("C11/ORDER/purge", "directory removals", n, 1)
}

// isRawPathFn: g computes the path of a message's raw file: Message.rawPath itself, or the
// function of the package whose result rawPath hands back unchanged (mbox.rawPathFor(id)).
func (m *fsModel) isRawPathFn(g *ssa.Function) bool {
	if g == nil || m.rawPath == nil {
		return false
	}
	if g == m.rawPath {
		return true
	}
	if m.rawFns == nil {
		m.rawFns = map[*ssa.Function]bool{}
		eng.EachInstr(m.rawPath, func(in ssa.Instruction) {
			ret, ok := in.(*ssa.Return)
			if !ok {
				return
			}
			for _, rv := range eng.ReturnResults(ret) {
				if call, ok := rv.(*ssa.Call); ok {
					if h := eng.StaticCallee(call.Common()); h != nil && eng.FuncPkgPath(h) == eng.FuncPkgPath(m.rawPath) {
						m.rawFns[h] = true
					}
				}
			}
		})
	}
	return m.rawFns[g]
}
