package rules

import (
	"fmt"
	"go/token"
	"go/types"

	"golang.org/x/tools/go/ssa"

	"ibcheck/eng"
)

func init() { Registry["C06"] = checkC06 }

// loadsField reports whether v is (a numeric conversion of, or constant offset from) a load
// of struct field f.
func loadsField(v ssa.Value, f *types.Var) bool {
	v = eng.StripConv(v)
	if b, ok := v.(*ssa.BinOp); ok && (b.Op == token.ADD || b.Op == token.SUB) {
		if _, isC := eng.ConstInt(b.Y); isC {
			return false // Max±k is a different bound: not accepted as "the limit"
		}
	}
	return eng.SameField(eng.LoadedField(v), f)
}

// fromCall reports whether v is result #idx of a call to the named function (through
// numeric conversions).
func fromCall(v ssa.Value, name string, idx int) bool {
	v = eng.StripConv(v)
	if e, ok := v.(*ssa.Extract); ok && e.Index == idx {
		if c, ok := e.Tuple.(*ssa.Call); ok {
			return eng.CalleeName(c.Common()) == name
		}
	}
	return false
}

// intRange describes an integer type as (signed, bits); the platform-sized int, uint and
// uintptr are reported with bits == 0 ("word": 32 or 64 depending on the platform).
func intRange(t types.Type) (signed bool, bits int, ok bool) {
	b, isB := t.Underlying().(*types.Basic)
	if !isB {
		return false, 0, false
	}
	switch b.Kind() {
	case types.Int8:
		return true, 8, true
	case types.Int16:
		return true, 16, true
	case types.Int32:
		return true, 32, true
	case types.Int:
		return true, 0, true
	case types.Int64:
		return true, 64, true
	case types.Uint8:
		return false, 8, true
	case types.Uint16:
		return false, 16, true
	case types.Uint32:
		return false, 32, true
	case types.Uint, types.Uintptr:
		return false, 0, true
	case types.Uint64:
		return false, 64, true
	}
	return false, 0, false
}

// bitsLE: every b1-bit quantity fits in b2 bits on every platform (0 = word, 32..64 bits);
// strict asks for at least one spare bit.
func bitsLE(b1, b2 int, strict bool) bool {
	lo := func(b int) int { // smallest possible width
		if b == 0 {
			return 32
		}
		return b
	}
	hi := func(b int) int { // largest possible width
		if b == 0 {
			return 64
		}
		return b
	}
	if b1 == 0 && b2 == 0 {
		return !strict
	}
	if strict {
		return hi(b1) < lo(b2)
	}
	return hi(b1) <= lo(b2)
}

// lossyParsedConv follows v back through conversions to the strconv call that produced it
// and reports a conversion whose target type cannot represent every value the parse can
// yield (given the call's constant bitSize). "" means value preserving.
// paramActual, when set, maps a parameter of a helper with exactly one static call site to the
// argument passed there (Prog.Actual): conversions on both sides of the call are examined.
var paramActual func(ssa.Value) ssa.Value

func lossyParsedConv(v ssa.Value) string {
	var convs []*ssa.Convert
	for {
		switch x := v.(type) {
		case *ssa.Convert:
			convs = append(convs, x)
			v = x.X
			continue
		case *ssa.ChangeType:
			v = x.X
			continue
		case *ssa.Parameter:
			if paramActual != nil {
				if w := paramActual(x); w != v {
					v = w
					continue
				}
			}
		case *ssa.UnOp:
			// a variable captured by a closure, assigned once
			if ad := eng.LoadAddr(v); ad != nil {
				if cell := eng.CellOf(ad); cell != nil && !eng.CellEscapes(cell) {
					if sts := eng.CellStores(cell); len(sts) == 1 {
						v = sts[0].Val
						continue
					}
				}
			}
		}
		break
	}
	e, ok := v.(*ssa.Extract)
	if !ok {
		return ""
	}
	call, ok := e.Tuple.(*ssa.Call)
	if !ok {
		return ""
	}
	var signed bool
	bits := 0
	switch name := eng.CalleeName(call.Common()); name {
	case "strconv.Atoi":
		signed = true
	case "strconv.ParseInt", "strconv.ParseUint":
		signed = name == "strconv.ParseInt"
		if k, isC := eng.ConstInt(call.Call.Args[2]); !isC {
			bits = 64
		} else {
			bits = int(k) // 0 = platform int
		}
	default:
		return ""
	}
	// innermost conversion first
	for i := len(convs) - 1; i >= 0; i-- {
		ds, db, ok := intRange(convs[i].Type())
		if !ok {
			return "conversion to " + convs[i].Type().String()
		}
		fits := false
		switch {
		case signed == ds:
			fits = bitsLE(bits, db, false)
		case !signed && ds:
			fits = bitsLE(bits, db, true)
		}
		if !fits {
			sg, w := "unsigned", fmt.Sprintf("%d-bit", bits)
			if signed {
				sg = "signed"
			}
			if bits == 0 {
				w = "word-sized"
			}
			return fmt.Sprintf("%s %s parse result converted to %s", sg, w, convs[i].Type().String())
		}
		signed, bits = ds, db
	}
	return ""
}

// sizeGate is a branch comparing a size-like value with config.SMTP.MaxMessageBytes.
type sizeGate struct {
	fn        *ssa.Function
	iff       *ssa.If
	overEdge  int // successor index taken when size > max
	strict    bool
	sizeVal   ssa.Value
	badReason string
}

// findSizeGates finds branches in fn relating `isSize` values with the limit field.
func findSizeGates(fn *ssa.Function, limit *types.Var, isSize func(ssa.Value) bool) (gates []sizeGate, unknown []*ssa.If) {
	for _, b := range fn.Blocks {
		iff := eng.IfOf(b)
		if iff == nil {
			continue
		}
		r, ok := eng.CondRel(iff.Cond)
		if !ok {
			continue
		}
		if loadsField(r.X, limit) {
			r = r.Swap()
		}
		if !loadsField(r.Y, limit) {
			continue
		}
		if !isSize(r.X) {
			unknown = append(unknown, iff)
			continue
		}
		g := sizeGate{fn: fn, iff: iff, sizeVal: r.X}
		switch r.Op { // relation "size OP max" holds on the true edge
		case token.GTR:
			g.overEdge, g.strict = 0, true
		case token.LEQ:
			g.overEdge, g.strict = 1, true
		case token.GEQ:
			g.overEdge, g.badReason = 0, "rejects size == limit (>=), but a message within the limit must be accepted"
		case token.LSS:
			g.overEdge, g.badReason = 1, "accepts only size < limit, but a message within the limit (==) must be accepted"
		default:
			g.badReason = "limit compared with ==/!= : not an upper bound"
		}
		gates = append(gates, g)
	}
	return
}

func checkC06(c *Ctx) {
	r := c.R
	r.Explanation = "Decides the size-gate skeleton of SMTP: (D1) the MAIL handler's branch on the declared SIZE against config.SMTP.MaxMessageBytes is strict (size > max rejects) and its over-limit edge cannot reach the transition to MAIL state; (D2) between the DATA read and every call of Manager.Deliver there is a branch comparing the length of the received bytes with MaxMessageBytes whose over-limit edge cannot reach Deliver; (D3) the over-limit handling sends a 5xx reply, resets the envelope and does not enter QUIT. All paths of the functions involved are covered (CFG reachability with avoid-sets), not sampled executions."
	r.NotDecided = []string{"exact boundary arithmetic on decoded vs wire bytes", "memory use while reading an oversized message", "that the store persists nothing of a refused message beyond 'Deliver is not called' (C01/D1: only Deliver adds mail)"}
	r.Assumptions = []string{"package-level error sentinels (errors.New at init) are non-nil", "one Session object per session goroutine"}
	r.Rule("C06/SIZE/mail", "in the MAIL handler the branch comparing the parsed SIZE parameter with config.SMTP.MaxMessageBytes must be `size > max` (strict), its over-limit edge must not reach enterState(MAIL) and its within-limit edge must")
	r.Rule("C06/SIZE/data", "every function that calls Manager.Deliver must be gated: a branch relating len(received bytes) to config.SMTP.MaxMessageBytes (strict `>`), in that function or in the DATA-read function whose error result guards the Deliver call, whose over-limit edge cannot reach Deliver")
	r.Rule("C06/USABLE", "the over-limit path of the DATA size gate sends a 5xx reply, passes the envelope reset and cannot reach enterState(QUIT)")
	m := c.smtp()
	if !m.ok {
		return
	}
	// the declared SIZE is found wherever it stands among the ESMTP parameters
	c.paramRegexp("C06/SIZE/param-parse", smtpRel, 1)
	p := c.P

	// ---- D1: SIZE= at MAIL
	isParsed := func(v ssa.Value) bool {
		return fromCall(v, "strconv.ParseInt", 0) || fromCall(v, "strconv.Atoi", 0) || fromCall(v, "strconv.ParseUint", 0)
	}
	nMail := 0
	for _, fn := range m.fns {
		gates, _ := findSizeGates(fn, m.fMaxBytes, isParsed)
		for _, g := range gates {
			nMail++
			site := p.InstrPos(g.iff)
			cons := "size-param-gate@" + shortFn(fn)
			if g.badReason != "" {
				r.Bad("C06/SIZE/mail", cons, site, "%s", g.badReason)
				continue
			}
			over := g.iff.Block().Succs[g.overEdge]
			under := g.iff.Block().Succs[1-g.overEdge]
			// the gate may sit in a helper that reports its verdict as a bool: then the
			// over-limit edge must report false, and at every call site the false outcome
			// must not reach MAIL while the true outcome can
			if bt, isB := resultIsBool(fn); isB && bt && eng.BlockReaches(fn.Blocks[0], m.entersState("MAIL"), nil) == nil {
				notFalse := func(in ssa.Instruction) bool {
					ret, ok := in.(*ssa.Return)
					if !ok {
						return false
					}
					b, isC := eng.ConstBool(eng.ReturnResults(ret)[0])
					return !(isC && !b)
				}
				prob := ""
				if hit := eng.BlockReaches(over, notFalse, nil); hit != nil {
					prob = "the over-limit edge of the helper can report acceptance at " + p.InstrPos(hit)
				} else if eng.BlockReaches(under, notFalse, nil) == nil {
					prob = "the within-limit edge of the helper never reports acceptance: every SIZE= would be refused"
				} else if ret := eng.BlockReaches(over, eng.IsReturn, func(in ssa.Instruction) bool {
					if !m.isSend(in) {
						return false
					}
					pre, ok := m.sendPrefix(in)
					return replyClass(pre, ok) == '5'
				}); ret != nil {
					prob = "over-limit edge can return at " + p.InstrPos(ret) + " without a 5xx reply"
				} else {
					sites := p.StaticCallSites(fn)
					if len(sites) == 0 {
						prob = "the gate helper is never called"
					}
					for _, cs := range sites {
						cfn := cs.Instr.Parent()
						callV, _ := cs.Instr.(*ssa.Call)
						var fEdge, tEdge *ssa.BasicBlock
						for _, b := range cfn.Blocks {
							for k := 0; k < len(b.Succs) && len(b.Succs) == 2; k++ {
								v, pol, ok := eng.CondTruth(b, k)
								if ok && callV != nil && v == ssa.Value(callV) {
									if pol {
										tEdge = b.Succs[k]
									} else {
										fEdge = b.Succs[k]
									}
								}
							}
						}
						switch {
						case fEdge == nil || tEdge == nil:
							prob = "the verdict of " + shortFn(fn) + " is not branched on at " + p.InstrPos(cs.Instr.(ssa.Instruction))
						case eng.BlockReaches(fEdge, m.entersState("MAIL"), nil) != nil:
							prob = "after a refusal by " + shortFn(fn) + " the caller still reaches enterState(MAIL)"
						case eng.BlockReaches(tEdge, m.entersState("MAIL"), nil) == nil:
							prob = "after acceptance by " + shortFn(fn) + " the caller cannot reach enterState(MAIL)"
						}
					}
				}
				if prob == "" {
					if why := lossyParsedConv(g.sizeVal); why != "" {
						prob = "the declared SIZE is converted before the comparison in a way that can change its value (" + why + ")"
					}
				}
				if prob != "" {
					r.Bad("C06/SIZE/mail", cons, site, "%s", prob)
				} else {
					r.Ok("C06/SIZE/mail", cons, site, "strict `size > max` in a helper: over-limit edge replies 5xx and reports false; callers reach MAIL only on true")
				}
				continue
			}
			if hit := eng.BlockReaches(over, m.entersState("MAIL"), nil); hit != nil {
				r.Bad("C06/SIZE/mail", cons, site, "over-limit edge reaches enterState(MAIL) at %s: a declared SIZE above the limit is accepted", p.InstrPos(hit))
				continue
			}
			if eng.BlockReaches(under, m.entersState("MAIL"), nil) == nil {
				r.Bad("C06/SIZE/mail", cons, site, "within-limit edge cannot reach enterState(MAIL): every SIZE= would be refused")
				continue
			}
			// the over-limit edge must answer 5xx
			if ret := eng.BlockReaches(over, eng.IsReturn, func(in ssa.Instruction) bool {
				if !m.isSend(in) {
					return false
				}
				pre, ok := m.sendPrefix(in)
				return replyClass(pre, ok) == '5'
			}); ret != nil {
				r.Bad("C06/SIZE/mail", cons, site, "over-limit edge can return at %s without a 5xx reply", p.InstrPos(ret))
				continue
			}
			if why := lossyParsedConv(g.sizeVal); why != "" {
				r.Bad("C06/SIZE/mail", cons, site, "the declared SIZE is converted before the comparison in a way that can change its value (%s): a huge declared size wraps to a small or negative number and is accepted", why)
				continue
			}
			r.Ok("C06/SIZE/mail", cons, site, "strict `size > max`; over-limit edge replies 5xx and cannot reach MAIL; within-limit edge can; the parsed value reaches the comparison without a narrowing or sign-changing conversion")
		}
	}
	r.Floor("C06/SIZE/mail", "branches on parsed SIZE vs MaxMessageBytes", nMail, 1)

	// ---- D2/D3: DATA gate
	isLen := func(v ssa.Value) bool {
		x := eng.LenOf(v)
		if x == nil {
			return false
		}
		switch t := x.Type().Underlying().(type) {
		case *types.Slice:
			b, ok := t.Elem().Underlying().(*types.Basic)
			return ok && b.Kind() == types.Uint8
		case *types.Basic:
			return t.Info()&types.IsString != 0
		}
		return false
	}
	r.Floor("C06/SIZE/data", "Deliver call sites in pkg/server/smtp", len(m.deliverSites), 1)
	for _, site := range m.deliverSites {
		F := site.Parent()
		cons := "deliver-caller@" + shortFn(F)
		isDeliver := func(in ssa.Instruction) bool { return in == site.(ssa.Instruction) }
		// candidate gates in F
		gatesF, unkF := findSizeGates(F, m.fMaxBytes, isLen)
		decided := false
		for _, u := range unkF {
			r.Undecided("C06/SIZE/data", cons, p.InstrPos(u), "branch on MaxMessageBytes against a value the rule cannot classify as the received size")
			decided = true
		}
		for _, g := range gatesF {
			decided = true
			gs := p.InstrPos(g.iff)
			if g.badReason != "" {
				r.Bad("C06/SIZE/data", cons, gs, "%s", g.badReason)
				continue
			}
			over := g.iff.Block().Succs[g.overEdge]
			under := g.iff.Block().Succs[1-g.overEdge]
			if hit := eng.BlockReaches(over, isDeliver, nil); hit != nil {
				r.Bad("C06/SIZE/data", cons, gs, "over-limit edge still reaches Deliver at %s", p.InstrPos(hit))
				continue
			}
			if eng.BlockReaches(under, isDeliver, nil) == nil {
				r.Bad("C06/SIZE/data", cons, gs, "within-limit edge cannot reach Deliver")
				continue
			}
			// every path entry→Deliver must pass this gate's block
			if !g.iff.Block().Dominates(site.Block()) {
				r.Bad("C06/SIZE/data", cons, gs, "size gate does not dominate the Deliver call at %s: some path delivers unchecked", p.InstrPos(site))
				continue
			}
			r.Ok("C06/SIZE/data", cons, gs, "gate in the delivering function dominates Deliver; over-limit edge cannot reach it")
			c.c06Usable(m, cons, over, gs)
		}
		if decided {
			continue
		}
		// gate inside the DATA-read function G, whose error result guards Deliver (or the
		// call of the helper that delivers)
		lifted, gcall, lok := m.liftToDataReader(p, site)
		if !lok {
			r.Bad("C06/SIZE/data", cons, p.InstrPos(site), "Deliver is called in a function that neither compares the data length with MaxMessageBytes nor calls (or is called only from the caller of) the DATA-read function %s", shortFn(m.dataRead))
			continue
		}
		site, F = lifted, lifted.Parent()
		isDeliver = func(in ssa.Instruction) bool { return in == site.(ssa.Instruction) }
		gatesG, unkG := findSizeGates(m.dataRead, m.fMaxBytes, isLen)
		for _, u := range unkG {
			r.Undecided("C06/SIZE/data", cons, p.InstrPos(u), "branch on MaxMessageBytes in %s against a value the rule cannot classify as the received size", shortFn(m.dataRead))
		}
		if len(unkG) > 0 {
			continue
		}
		if len(gatesG) == 0 {
			r.Bad("C06/SIZE/data", cons, p.InstrPos(site), "no branch compares the length of the received DATA with config.SMTP.MaxMessageBytes, neither in %s nor in %s (%s): an oversized message is delivered and acknowledged", shortFn(F), shortFn(m.dataRead), p.Pos(m.dataRead.Pos()))
			continue
		}
		// error result of gcall must guard Deliver. When the read sits in a helper that tells
		// its caller whether there is something to deliver, the error is handled in the helper
		// (Fr) and the caller is guarded by the helper's answer.
		_, inner := m.readVia(F)
		Fr, rcall := F, gcall
		if inner != nil {
			Fr, rcall = inner.Parent(), inner
		}
		var errVal ssa.Value
		for _, ref := range *rcall.Referrers() {
			if e, ok := ref.(*ssa.Extract); ok && e.Index == 1 {
				errVal = e
			}
		}
		guarded := false
		var guardIf *ssa.If
		if errVal != nil && inner != nil {
			guarded = m.readSucceededAt(gcall, inner, site.Block())
			for _, b := range Fr.Blocks {
				if rel, ok := eng.EdgeRel(b, 0); ok && rel.X == errVal && eng.IsNilConst(rel.Y) && (rel.Op == token.NEQ || rel.Op == token.EQL) && guardIf == nil {
					guardIf = eng.IfOf(b)
				}
			}
		} else if errVal != nil {
			for _, b := range F.Blocks {
				rel, ok := eng.EdgeRel(b, 0)
				if !ok || rel.X != errVal || !eng.IsNilConst(rel.Y) {
					continue
				}
				errEdge := 0 // edge on which err != nil
				if rel.Op == token.EQL {
					errEdge = 1
				} else if rel.Op != token.NEQ {
					continue
				}
				if b.Dominates(site.Block()) && eng.BlockReaches(b.Succs[errEdge], isDeliver, nil) == nil {
					guarded = true
					guardIf = eng.IfOf(b)
				}
			}
		}
		if !guarded {
			r.Bad("C06/SIZE/data", cons, p.InstrPos(site), "the error result of %s does not guard the Deliver call (no dominating `err != nil` branch whose error edge avoids Deliver)", shortFn(m.dataRead))
			continue
		}
		for _, g := range gatesG {
			gs := p.InstrPos(g.iff)
			if g.badReason != "" {
				r.Bad("C06/SIZE/data", cons, gs, "%s", g.badReason)
				continue
			}
			over := g.iff.Block().Succs[g.overEdge]
			// every return reachable from the over-limit edge returns a non-nil error
			bad := eng.BlockReaches(over, func(in ssa.Instruction) bool {
				ret, ok := in.(*ssa.Return)
				if !ok || len(eng.ReturnResults(ret)) == 0 {
					return false
				}
				e := eng.ReturnResults(ret)[len(eng.ReturnResults(ret))-1]
				return !definitelyNonNilErr(e) && !eng.KnownNonNil(e, ret.Block())
			}, nil)
			if bad != nil {
				r.Bad("C06/SIZE/data", cons, gs, "over-limit edge in %s can return at %s with an error that is not provably non-nil: the caller would deliver", shortFn(m.dataRead), p.InstrPos(bad))
				continue
			}
			// the gate must lie on every path to a nil-error return of G
			okRet := eng.BlockReaches(g.iff.Block().Succs[1-g.overEdge], eng.IsReturn, nil)
			if okRet == nil {
				r.Bad("C06/SIZE/data", cons, gs, "within-limit edge cannot return: every message would be refused")
				continue
			}
			bypass := (&eng.Search{Target: func(in ssa.Instruction) bool {
				ret, ok := in.(*ssa.Return)
				if !ok || len(eng.ReturnResults(ret)) == 0 {
					return false
				}
				e := eng.ReturnResults(ret)[len(eng.ReturnResults(ret))-1]
				return !definitelyNonNilErr(e) && !eng.KnownNonNil(e, ret.Block())
			}, Avoid: func(in ssa.Instruction) bool { return in == ssa.Instruction(g.iff) }}).FromEntry(m.dataRead)
			if bypass != nil {
				r.Bad("C06/SIZE/data", cons, gs, "%s can return success at %s without passing the size gate", shortFn(m.dataRead), p.InstrPos(bypass))
				continue
			}
			// a read bound (io.LimitReader / CopyN) in front of the gate must be MaxMessageBytes+k,
			// k >= 1: any other bound truncates silently, the gate then sees a short length and a
			// prefix of an oversized message is accepted and stored
			if why := c.c06ReadBound(m); why != "" {
				r.Bad("C06/SIZE/data", cons+":read-bound", gs, "%s", why)
				continue
			}
			r.Ok("C06/SIZE/data", cons, gs, "gate in %s: over-limit edge returns only non-nil errors; every success return passes the gate; the caller's `err != nil` branch (%s) keeps Deliver off the error edge; read bound is MaxMessageBytes+k", shortFn(m.dataRead), p.InstrPos(guardIf))
			// D3: how does F treat the over-limit error?
			var sentinel *ssa.Global
			eng.BlockReaches(over, func(in ssa.Instruction) bool {
				if ret, ok := in.(*ssa.Return); ok && len(eng.ReturnResults(ret)) > 0 {
					if u, ok := eng.ReturnResults(ret)[len(eng.ReturnResults(ret))-1].(*ssa.UnOp); ok && u.Op == token.MUL {
						if gl, ok := u.X.(*ssa.Global); ok {
							sentinel = gl
						}
					}
				}
				return false
			}, nil)
			var handled *ssa.BasicBlock
			var viaHelper *ssa.Call
			if sentinel != nil && errVal != nil {
				// the comparison with the sentinel: in F on the read's error, or in a helper of
				// the package that F hands the error to
				type cand struct {
					fn   *ssa.Function
					ev   ssa.Value
					call *ssa.Call
				}
				cands := []cand{{Fr, errVal, nil}}
				eng.EachInstr(Fr, func(in ssa.Instruction) {
					call, ok := in.(*ssa.Call)
					if !ok {
						return
					}
					g := eng.StaticCallee(call.Common())
					if g == nil || len(g.Blocks) == 0 || eng.FuncPkgPath(g) != eng.Mod+"/"+smtpRel {
						return
					}
					for i, a := range call.Call.Args {
						if a == errVal && i < len(g.Params) {
							cands = append(cands, cand{g, g.Params[i], call})
						}
					}
				})
				for _, cd := range cands {
					for _, b := range cd.fn.Blocks {
						for k := 0; k < 2; k++ {
							rel, ok := eng.EdgeRel(b, k)
							if !ok || rel.Op != token.EQL {
								continue
							}
							x, y := rel.X, rel.Y
							if y == cd.ev {
								x, y = y, x
							}
							if x != cd.ev {
								continue
							}
							if u, ok := y.(*ssa.UnOp); ok && u.Op == token.MUL && u.X == ssa.Value(sentinel) {
								handled = b.Succs[k]
								viaHelper = cd.call
							}
						}
					}
				}
			}
			if viaHelper != nil {
				// back in F after the helper returns: the session must not be closed there
				if hit := (&eng.Search{Target: m.entersState("QUIT")}).After(viaHelper); hit != nil {
					r.Bad("C06/USABLE", cons, gs, "after the over-limit error is handled by %s the caller reaches enterState(QUIT) at %s", shortFn(eng.StaticCallee(viaHelper.Common())), p.InstrPos(hit))
					continue
				}
			}
			if handled == nil && guardIf == nil {
				r.Undecided("C06/USABLE", cons, gs, "where %s deals with the error of the DATA read was not found", shortFn(Fr))
				continue
			}
			if handled == nil {
				// generic error path
				errEdge := 0
				rel, _ := eng.EdgeRel(guardIf.Block(), 0)
				if rel.Op == token.EQL {
					errEdge = 1
				}
				handled = guardIf.Block().Succs[errEdge]
			}
			c.c06Usable(m, cons, handled, gs)
		}
	}
	c.dataReadErrorVerdict("C06/USABLE/read-error-verdict", m)
}

// definitelyNonNilErr: package-level sentinel loads and fresh errors.
func definitelyNonNilErr(v ssa.Value) bool { return nonNilErrDepth(v, 0) }

func nonNilErrDepth(v ssa.Value, depth int) bool {
	if depth > 4 {
		return false
	}
	switch x := v.(type) {
	case *ssa.Const:
		return !x.IsNil()
	case *ssa.UnOp:
		if x.Op == token.MUL {
			_, ok := x.X.(*ssa.Global)
			return ok
		}
	case *ssa.Call:
		switch eng.CalleeName(x.Common()) {
		case "errors.New", "fmt.Errorf":
			return true
		}
		// a module helper that only ever returns freshly made errors
		if rets, g := eng.ReturnedValues(x, 0); g != nil && len(rets) > 0 && g.Signature.Results().Len() == 1 {
			for _, rv := range rets {
				if c2, isCall := rv.(*ssa.Call); isCall && eng.StaticCallee(c2.Common()) == g {
					return false
				}
				if !nonNilErrDepth(rv, depth+1) {
					return false
				}
			}
			return true
		}
	case *ssa.MakeInterface:
		return true
	}
	return false
}

func (c *Ctx) c06Usable(m *smtpModel, cons string, from *ssa.BasicBlock, gateSite string) {
	r, p := c.R, c.P
	if hit := eng.BlockReaches(from, m.entersState("QUIT"), nil); hit != nil {
		r.Bad("C06/USABLE", cons, gateSite, "over-limit handling reaches enterState(QUIT) at %s: the session is closed instead of remaining usable", p.InstrPos(hit))
		return
	}
	if ret := eng.BlockReaches(from, eng.IsReturn, m.isReset); ret != nil {
		r.Bad("C06/USABLE", cons, gateSite, "over-limit handling can return at %s without resetting the envelope", p.InstrPos(ret))
		return
	}
	if ret := eng.BlockReaches(from, eng.IsReturn, func(in ssa.Instruction) bool {
		if !m.isSend(in) {
			return false
		}
		pre, ok := m.sendPrefix(in)
		return replyClass(pre, ok) == '5'
	}); ret != nil {
		r.Bad("C06/USABLE", cons, gateSite, "over-limit handling can return at %s without a 5xx reply", p.InstrPos(ret))
		return
	}
	r.Ok("C06/USABLE", cons, gateSite, "over-limit path replies 5xx, resets the envelope, never enters QUIT")
}

// c06ReadBound checks every io.LimitReader / io.CopyN bound in the DATA-read function.
func (c *Ctx) c06ReadBound(m *smtpModel) string {
	p := c.P
	why := ""
	eng.EachInstr(m.dataRead, func(in ssa.Instruction) {
		call, ok := in.(*ssa.Call)
		if !ok {
			return
		}
		var lim ssa.Value
		switch eng.CalleeName(call.Common()) {
		case "io.LimitReader":
			lim = call.Call.Args[1]
		case "io.CopyN":
			lim = call.Call.Args[2]
		default:
			return
		}
		v := eng.StripConv(lim)
		b, ok := v.(*ssa.BinOp)
		if !ok || b.Op != token.ADD {
			why = "the read bound at " + p.InstrPos(call) + " is not config.SMTP.MaxMessageBytes + k: a bound from any other source (e.g. the size the client declared) truncates an oversized message to a length the size gate accepts"
			return
		}
		k, isC := eng.ConstInt(b.Y)
		if !isC || k < 1 || !eng.SameField(eng.LoadedField(eng.StripConv(b.X)), m.fMaxBytes) {
			why = "the read bound at " + p.InstrPos(call) + " is not config.SMTP.MaxMessageBytes + k (k >= 1): the gate `len > Max` can never observe an over-limit message, or observes a truncated one"
		}
	})
	return why
}

// resultIsBool: fn has exactly one result and it is a bool.
func resultIsBool(fn *ssa.Function) (bool, bool) {
	res := fn.Signature.Results()
	if res.Len() != 1 {
		return false, true
	}
	b, ok := res.At(0).Type().Underlying().(*types.Basic)
	return ok && b.Kind() == types.Bool, true
}

// dataReadErrorVerdict: a read of the DATA block that fails is reported as that failure. A
// return on the failure edge that hands back a package-level sentinel error instead (a
// protocol verdict such as "message too large", which the caller answers with a reply and an
// envelope reset) keeps the session going although the dot reader was abandoned mid-message:
// the unread rest of the refused message is then executed as commands, and whatever it
// spells (MAIL, RCPT, DATA … .) is delivered.
func (c *Ctx) dataReadErrorVerdict(rule string, m *smtpModel) {
	r := c.R
	r.Rule(rule, "in the DATA-read function no return reachable on the error edge of a read of the data block (io.ReadAll/Copy/ReadFull/ReadDotBytes/...) hands back a package-level sentinel error: a failed read must reach the caller as a failure of the connection, not as a verdict on the message")
	n := c.errNotSwallowedCallsX(rule, []*ssa.Function{m.dataRead}, func(call *ssa.Call) (string, bool) {
		name := eng.CalleeName(call.Common())
		switch name {
		case "io.ReadAll", "io.ReadFull", "io.ReadAtLeast", "io.Copy", "io.CopyN", "io.CopyBuffer", "io/ioutil.ReadAll",
			"(*net/textproto.Reader).ReadDotBytes", "(*net/textproto.Reader).ReadDotLines", "(*bytes.Buffer).ReadFrom":
			return name, true
		}
		return name, false
	}, false, "the session stays in the command loop with the rest of the message still unread, so that rest is run as SMTP commands (part of a refused message can be stored; the client's next command is answered out of step)", func(ret *ssa.Return) string {
		res := eng.ReturnResults(ret)
		if len(res) == 0 {
			return ""
		}
		e := eng.StripConv(res[len(res)-1])
		if u, ok := e.(*ssa.UnOp); ok && u.Op == token.MUL {
			if g, ok := u.X.(*ssa.Global); ok {
				return "returns the sentinel " + g.Name() + " as if the read had completed"
			}
		}
		return ""
	})
	r.Floor(rule, "reads of the data block in the DATA-read function", n, 1)
}
