package rules

import (
	"go/constant"
	"go/token"
	"go/types"
	"sort"
	"strings"

	"golang.org/x/tools/go/ssa"

	"ibcheck/eng"
)

// c14Identity: the handlers tell "does not exist" from other failures by comparing the
// Manager's error with storage.ErrNotExist. When they compare by identity (==), the sentinel
// must reach them unwrapped: a layer between the store and the handler that decorates the
// error (fmt.Errorf("…: %w", err)) turns every 404 into a 500. When they use errors.Is, %w
// wrapping is transparent and only a wrap that drops the chain (%v, %s, errors.New) breaks it.
func (c *Ctx) c14Identity(sm *storeModel, units []*ssa.Function) {
	r, p := c.R, c.P
	r.Rule("C14/404/identity", "between the stores and the handlers' comparison with storage.ErrNotExist no function returns an error built from a value that may be the sentinel (identity comparison: any wrap; errors.Is: a wrap without %w)")
	isSentinel := func(v ssa.Value) bool {
		u, ok := v.(*ssa.UnOp)
		return ok && u.Op == token.MUL && u.X == ssa.Value(sm.errNotExist)
	}
	// how do the handlers compare?
	identity, viaIs := 0, 0
	for _, h := range units {
		eng.EachInstr(h, func(in ssa.Instruction) {
			switch x := in.(type) {
			case *ssa.BinOp:
				if (x.Op == token.EQL || x.Op == token.NEQ) && (isSentinel(x.X) || isSentinel(x.Y)) {
					identity++
				}
			case *ssa.Call:
				if eng.CalleeName(x.Common()) == "errors.Is" && len(x.Call.Args) == 2 && isSentinel(x.Call.Args[1]) {
					viaIs++
				}
			}
		})
	}
	r.Floor("C14/404/identity", "comparisons with storage.ErrNotExist in the handlers", identity+viaIs, 1)
	// the layers: Manager implementers' and Store implementers' lookup/mutation methods and
	// what they reach inside their own packages
	names := map[string]bool{"GetMessage": true, "SourceReader": true, "MarkSeen": true, "RemoveMessage": true}
	var roots []*ssa.Function
	for _, rel := range []string{"pkg/message", "pkg/storage/mem", "pkg/storage/file"} {
		for _, fn := range pkgFuncs(p, rel) {
			if fn.Parent() == nil && fn.Signature.Recv() != nil && names[fn.Name()] {
				roots = append(roots, fn)
			}
		}
	}
	sortFuncs(roots)
	layer := map[*ssa.Function]bool{}
	for _, rt := range roots {
		for g := range p.SyncReach(rt) {
			pk := eng.FuncPkgPath(g)
			if strings.HasSuffix(pk, "/pkg/message") || strings.HasSuffix(pk, "/pkg/storage/mem") || strings.HasSuffix(pk, "/pkg/storage/file") {
				layer[g] = true
			}
		}
	}
	var fns []*ssa.Function
	for g := range layer {
		fns = append(fns, g)
	}
	sortFuncs(fns)
	// mayBe: the error value may be the sentinel
	var mayBe func(v ssa.Value, at *ssa.BasicBlock, depth int) bool
	excluded := func(v ssa.Value, at *ssa.BasicBlock) bool {
		if at == nil {
			return false
		}
		al := append(eng.ValueAliases(v), v)
		for _, b := range at.Parent().Blocks {
			for k := 0; k < len(b.Succs) && len(b.Succs) == 2; k++ {
				rel, ok := eng.EdgeRel(b, k)
				if !ok || rel.Op != token.NEQ || !eng.EdgeDominates(b, k, at) {
					continue
				}
				x, y := rel.X, rel.Y
				if isSentinel(x) {
					x, y = y, x
				}
				if !isSentinel(y) {
					continue
				}
				for _, a := range al {
					if a == x {
						return true
					}
				}
			}
		}
		return false
	}
	busy := map[*ssa.Function]bool{}
	mayBe = func(v ssa.Value, at *ssa.BasicBlock, depth int) bool {
		if depth > 6 || v == nil {
			return false
		}
		if isSentinel(v) {
			return true
		}
		if excluded(v, at) {
			return false
		}
		switch x := v.(type) {
		case *ssa.Phi:
			for _, e := range x.Edges {
				if mayBe(e, nil, depth+1) {
					return true
				}
			}
		case *ssa.MakeInterface:
			return mayBe(x.X, at, depth+1)
		case *ssa.ChangeInterface:
			return mayBe(x.X, at, depth+1)
		case *ssa.Extract:
			if call, ok := x.Tuple.(*ssa.Call); ok {
				return mayBeCall(call, x.Index, depth, mayBe, busy, sm)
			}
		case *ssa.Call:
			return mayBeCall(x, 0, depth, mayBe, busy, sm)
		case *ssa.UnOp:
			if cell := eng.CellOf(x.X); cell != nil && x.Op == token.MUL {
				for _, st := range eng.CellStores(cell) {
					if mayBe(st.Val, nil, depth+1) {
						return true
					}
				}
			}
		}
		return false
	}
	n := 0
	var probs []string
	where := ""
	for _, fn := range fns {
		fn := fn
		eng.EachInstr(fn, func(in ssa.Instruction) {
			ret, ok := in.(*ssa.Return)
			if !ok {
				return
			}
			res := eng.ReturnResults(ret)
			if len(res) == 0 || !isErrorType(res[len(res)-1].Type()) {
				return
			}
			n++
			call, ok := res[len(res)-1].(*ssa.Call)
			if !ok {
				return
			}
			name := eng.CalleeName(call.Common())
			wrap := name == "fmt.Errorf" || name == "errors.Join" || strings.HasPrefix(name, "github.com/pkg/errors.")
			if !wrap {
				return
			}
			keeps := false
			if name == "fmt.Errorf" {
				if f, isC := eng.ConstString(call.Call.Args[0]); isC && strings.Contains(f, "%w") {
					keeps = true
				}
			}
			if name == "errors.Join" {
				keeps = true
			}
			var ops []ssa.Value
			if name == "fmt.Errorf" {
				ops = sprintfArgs(call.Call.Args[len(call.Call.Args)-1])
			} else {
				ops = call.Call.Args
			}
			for _, a := range ops {
				if !isErrorType(unwrapIface(a).Type()) && !isErrorType(a.Type()) {
					continue
				}
				if !mayBe(unwrapIface(a), ret.Block(), 0) {
					continue
				}
				if identity > 0 || !keeps {
					probs = append(probs, shortFn(fn)+" returns "+name+"(…) of an error that may be storage.ErrNotExist at "+p.InstrPos(ret))
					if where == "" {
						where = p.InstrPos(ret)
					}
				}
			}
		})
	}
	sort.Strings(probs)
	mode := "identity (==)"
	if identity == 0 {
		mode = "errors.Is"
	}
	if len(probs) > 0 {
		r.Bad("C14/404/identity", "sentinel-unwrapped", where, "%s: the handlers compare by %s, so a missing message is answered 500 instead of 404", strings.Join(probs, "; "), mode)
	} else {
		r.Ok("C14/404/identity", "sentinel-unwrapped", "", "%d error returns in %d functions between the stores and the handlers; none decorates a value that may be storage.ErrNotExist (handlers compare by %s)", n, len(fns), mode)
	}
	r.Floor("C14/404/identity", "error returns between stores and handlers", n, 1)
}

// mayBeCall: result idx of the call may be the sentinel: a Store/Manager interface method, or
// a module function one of whose returned values may be.
func mayBeCall(call *ssa.Call, idx int, depth int, mayBe func(ssa.Value, *ssa.BasicBlock, int) bool, busy map[*ssa.Function]bool, sm *storeModel) bool {
	if call.Call.IsInvoke() {
		switch call.Call.Method.Name() {
		case "GetMessage", "SourceReader", "MarkSeen", "RemoveMessage", "Source":
			pk := call.Call.Method.Pkg()
			return pk != nil && (strings.HasSuffix(pk.Path(), "/pkg/storage") || strings.HasSuffix(pk.Path(), "/pkg/message"))
		}
		return false
	}
	rets, g := eng.ReturnedValues(call, idx)
	if g == nil || busy[g] {
		return false
	}
	busy[g] = true
	defer delete(busy, g)
	for _, rv := range rets {
		if mayBe(rv, nil, depth+1) {
			return true
		}
	}
	return false
}

// c14ListOrder: the listing a handler returns is the store's list in the store's order. Between
// Store.GetMessages and the response the slice of messages (or of the metadata built from it,
// element by element) must not be handed to anything that reorders a slice: the stores order by
// arrival, which no field of a message reproduces (Date is taken before the store lock).
func (c *Ctx) c14ListOrder(handlers []*ssa.Function) {
	r, p := c.R, c.P
	r.Rule("C14/LIST/store-order", "on the listing path (handlers that reach Store.GetMessages through the Manager, and the Manager methods in between) no slice of messages or metadata is passed to a sorting, shuffling or reversing function")
	getMsgs := p.MethodObj("pkg/storage", "Store", "GetMessages")
	if getMsgs == nil {
		return
	}
	var fns []*ssa.Function
	seen := map[*ssa.Function]bool{}
	for _, h := range handlers {
		reach := p.ReachModule(h)
		reachesList := false
		for g := range reach {
			eng.EachInstr(g, func(in ssa.Instruction) {
				if call, ok := in.(*ssa.Call); ok && eng.IsCallTo(call.Common(), getMsgs) {
					reachesList = true
				}
			})
		}
		if !reachesList {
			continue
		}
		for g := range reach {
			pk := eng.FuncPkgPath(g)
			if seen[g] || !(strings.HasSuffix(pk, "/pkg/rest") || strings.HasSuffix(pk, "/pkg/webui") || strings.HasSuffix(pk, "/pkg/message")) {
				continue
			}
			seen[g] = true
			fns = append(fns, g)
		}
	}
	sortFuncs(fns)
	r.Floor("C14/LIST/store-order", "functions on the listing path", len(fns), 1)
	var probs []string
	where := ""
	for _, fn := range fns {
		fn := fn
		eng.EachInstr(fn, func(in ssa.Instruction) {
			call, ok := in.(*ssa.Call)
			if !ok {
				return
			}
			name := eng.CalleeName(call.Common())
			reorders := strings.HasPrefix(name, "sort.") || strings.HasPrefix(name, "slices.Sort") || name == "slices.Reverse" || strings.HasPrefix(name, "math/rand.Shuffle") || strings.HasPrefix(name, "(*math/rand.Rand).Shuffle")
			if !reorders {
				return
			}
			// only slices of messages / metadata matter
			for _, a := range call.Call.Args {
				t := eng.Unwrap(a).Type()
				if sl, ok := t.Underlying().(*types.Slice); ok {
					et := sl.Elem().String()
					if strings.Contains(et, "storage.Message") || strings.Contains(et, "MessageMetadata") || strings.Contains(et, "message.Message") || strings.Contains(et, "JSONMessageHeader") {
						probs = append(probs, name+" on "+eng.ShortType(t)+" in "+shortFn(fn)+" at "+p.InstrPos(in))
						if where == "" {
							where = p.InstrPos(in)
						}
					}
				}
			}
		})
	}
	sort.Strings(probs)
	if len(probs) > 0 {
		r.Bad("C14/LIST/store-order", "listing-path", where, "the listing is reordered on its way from the store to the response (%s): the order no longer is the store's (arrival) order, and its last entry no longer is what 'latest' returns", strings.Join(probs, "; "))
	} else {
		r.Ok("C14/LIST/store-order", "listing-path", "", "%d functions between the list handlers and Store.GetMessages; none reorders a slice of messages or metadata", len(fns))
	}
}

// c14ReadThrough: what the handlers report is what the store holds now. Every StoreManager
// method the handlers use consults the store on every path to a success return; an answer
// produced without a store call (a remembered message) survives removals that did not go
// through the manager (cap eviction, POP3, retention, the size limit).
func (c *Ctx) c14ReadThrough() {
	r, p := c.R, c.P
	r.Rule("C14/LIVE/read-through", "every path of a StoreManager method that serves the Manager interface from the store (all but Deliver) to a success return passes a call of the storage.Store interface")
	storeT := p.Named("pkg/storage", "Store")
	if storeT == nil {
		return
	}
	iface, _ := storeT.Underlying().(*types.Interface)
	if iface == nil {
		return
	}
	isStoreCall := func(in ssa.Instruction) bool {
		ci, ok := in.(*ssa.Call)
		if !ok || !ci.Common().IsInvoke() {
			return false
		}
		for i := 0; i < iface.NumMethods(); i++ {
			if eng.IsCallTo(ci.Common(), iface.Method(i)) {
				return true
			}
		}
		return false
	}
	// the methods of the Manager interface whose StoreManager implementation uses the store at
	// all (Deliver is C01's subject)
	mgrT := p.Named("pkg/message", "Manager")
	if mgrT == nil {
		return
	}
	mgrI, _ := mgrT.Underlying().(*types.Interface)
	if mgrI == nil {
		return
	}
	n := 0
	for i := 0; i < mgrI.NumMethods(); i++ {
		name := mgrI.Method(i).Name()
		fn := p.Method("pkg/message", "StoreManager", name)
		if fn == nil || name == "Deliver" {
			continue
		}
		uses := false
		for g := range p.SyncReach(fn) {
			if eng.FuncPkgPath(g) != eng.FuncPkgPath(fn) {
				continue
			}
			eng.EachInstr(g, func(in ssa.Instruction) {
				if isStoreCall(in) {
					uses = true
				}
			})
		}
		if !uses {
			continue
		}
		n++
		success := func(in ssa.Instruction) bool {
			ret, ok := in.(*ssa.Return)
			if !ok || in.Parent() != fn || eng.IsRecoverBlock(ret.Block()) {
				return false
			}
			res := eng.ReturnResults(ret)
			if len(res) == 0 {
				return true
			}
			e := res[len(res)-1]
			return !(definitelyNonNilErr(e) || eng.KnownNonNil(e, ret.Block()))
		}
		if hit := (&eng.Search{Target: success, Avoid: isStoreCall, Deep: true}).FromEntry(fn); hit != nil {
			r.Bad("C14/LIVE/read-through", shortFn(fn), p.InstrPos(hit), "%s can answer without consulting the store (success return at %s reached with no storage.Store call): the API keeps reporting a message after it left the store by another route (cap eviction, POP3, retention, size limit), while listing, source and delete say it is gone", shortFn(fn), p.InstrPos(hit))
		} else {
			r.Ok("C14/LIVE/read-through", shortFn(fn), p.Pos(fn.Pos()), "every success return follows a call of the store")
		}
	}
	r.Floor("C14/LIVE/read-through", "StoreManager methods examined", n, 1)
}

// c14BodyOnSuccess: "fetching … returns exactly what the store holds". A handler that has looked
// a message up answers with it: every path from the lookup to a `return nil` hands the response
// writer to something that writes (a renderer, a copy, NotFound/Error/Redirect). A return that
// only set headers or a status (a 304 shortcut computed from fields that do not cover everything
// the body shows, such as the seen flag) tells the client that what it holds is still what the
// store holds, without looking.
func (c *Ctx) c14BodyOnSuccess(handlers []*ssa.Function, producers ...*types.Func) {
	p, r := c.P, c.R
	rule := "C14/FETCH/answers-with-body"
	r.Rule(rule, "in every handler that calls Manager.GetMessage/SourceReader, each path from that call to `return nil` passes a call that is given the http.ResponseWriter and can write a body (anything but Header/WriteHeader; module helpers are looked into)")
	isRW := func(t types.Type) bool {
		n, ok := t.(*types.Named)
		return ok && n.Obj().Pkg() != nil && n.Obj().Pkg().Path() == "net/http" && n.Obj().Name() == "ResponseWriter"
	}
	writes := func(in ssa.Instruction) bool {
		call, ok := in.(*ssa.Call)
		if !ok {
			return false
		}
		cm := call.Common()
		if cm.IsInvoke() {
			if isRW(cm.Value.Type()) {
				return cm.Method.Name() != "Header" && cm.Method.Name() != "WriteHeader"
			}
		}
		if g := eng.StaticCallee(cm); g != nil && eng.InModule(g) && len(g.Blocks) > 0 {
			return false // looked into by the search
		}
		for _, a := range cm.Args {
			if isRW(a.Type()) {
				return true
			}
			if mi, ok := a.(*ssa.MakeInterface); ok && isRW(mi.X.Type()) {
				return true
			}
			if ct, ok := a.(*ssa.ChangeInterface); ok && isRW(ct.X.Type()) {
				return true
			}
		}
		return false
	}
	n := 0
	for _, h := range handlers {
		var lookups []*ssa.Call
		eng.EachInstr(h, func(in ssa.Instruction) {
			call, ok := in.(*ssa.Call)
			if !ok || !call.Call.IsInvoke() {
				return
			}
			for _, pr := range producers {
				if call.Call.Method == pr {
					lookups = append(lookups, call)
				}
			}
		})
		for _, lk := range lookups {
			n++
			cons := "fetch@" + shortFn(h)
			s := &eng.Search{Target: func(x ssa.Instruction) bool {
				rt, ok := x.(*ssa.Return)
				if !ok || x.Parent() != h || len(rt.Results) != 1 {
					return false
				}
				return eng.IsNilConst(eng.ResolveLocalLoad(rt.Results[0]))
			}, Avoid: writes, Deep: true}
			if hit := s.After(lk); hit != nil {
				r.Bad(rule, cons, p.InstrPos(lk), "the handler can return success at %s without anything having been written to the response after the lookup: the client gets a status with no body (a 304 or an empty 200) and takes the copy it holds — or nothing — for what the store holds now", p.InstrPos(hit))
			} else {
				r.Ok(rule, cons, p.InstrPos(lk), "every success return after the lookup is preceded by a write to the response")
			}
		}
	}
	r.Floor(rule, "message lookups in handlers", n, 4)
}

// c14MarkSeenEffect: "marking seen … effect exactly what the store holds". In each store the flag
// that Message.Seen() reports is written, in what MarkSeen runs, with the constant true — and with
// nothing else: a write of false (or of a computed value) makes the operation that is named
// mark-seen clear or toggle the flag while it answers 200.
func (c *Ctx) c14MarkSeenEffect(sm *storeModel) {
	p, r := c.P, c.R
	rule := "C14/EFFECT/mark-seen"
	r.Rule(rule, "in each store, what MarkSeen runs writes the field that Message.Seen() reads, and every write there is the constant true (a plain store, or (*atomic.Bool).Store(true))")
	n := 0
	for _, T := range sm.impls {
		ms := p.MethodOf(T, "MarkSeen")
		if ms == nil || !eng.InModule(ms) || len(ms.Blocks) == 0 || p.TestSupport[T.Obj().Pkg().Path()] {
			continue
		}
		pkgPath := T.Obj().Pkg().Path()
		rel := strings.TrimPrefix(pkgPath, eng.Mod+"/")
		// the flag by role: the field the package's Message.Seen() reads
		seen := p.OptMethod(rel, "Message", "Seen")
		var fSeen *types.Var
		if seen != nil {
			eng.EachInstr(seen, func(in ssa.Instruction) {
				if fa, ok := in.(*ssa.FieldAddr); ok && fSeen == nil {
					fSeen = eng.FieldOfAddr(fa)
				}
			})
		}
		name := eng.ShortType(T)
		if fSeen == nil {
			r.Undecided(rule, name, p.Pos(ms.Pos()), "the field read by Message.Seen() could not be found")
			continue
		}
		n++
		var good, bad []string
		for g := range p.SyncReach(ms) {
			if eng.FuncPkgPath(g) != pkgPath {
				continue
			}
			eng.EachInstr(g, func(in ssa.Instruction) {
				var val ssa.Value
				switch x := in.(type) {
				case *ssa.Store:
					if fa, ok := x.Addr.(*ssa.FieldAddr); ok && eng.SameField(eng.FieldOfAddr(fa), fSeen) {
						val = x.Val
					}
				case *ssa.Call:
					nm := eng.CalleeName(x.Common())
					if strings.HasPrefix(nm, "(*sync/atomic.") && len(x.Call.Args) >= 2 {
						if fa, ok := x.Call.Args[0].(*ssa.FieldAddr); ok && eng.SameField(eng.FieldOfAddr(fa), fSeen) && !strings.HasSuffix(nm, ").Load") {
							val = x.Call.Args[len(x.Call.Args)-1]
						}
					}
				}
				if val == nil {
					return
				}
				if k, ok := val.(*ssa.Const); ok && k.Value != nil && k.Value.Kind() == constant.Bool && constant.BoolVal(k.Value) {
					good = append(good, p.InstrPos(in))
				} else {
					bad = append(bad, p.InstrPos(in))
				}
			})
		}
		sort.Strings(good)
		sort.Strings(bad)
		switch {
		case len(bad) > 0:
			r.Bad(rule, name, p.Pos(ms.Pos()), "MarkSeen writes the seen flag with something other than true at %s: a message marked as read is reported unread (or the flag flips) although the request was answered with success", strings.Join(bad, ", "))
		case len(good) == 0:
			r.Bad(rule, name, p.Pos(ms.Pos()), "nothing that MarkSeen runs writes the flag Message.Seen() reads (%s): the request succeeds and changes nothing", fSeen.Name())
		default:
			r.Ok(rule, name, p.Pos(ms.Pos()), "the flag %s is set to true at %s", fSeen.Name(), strings.Join(good, ", "))
		}
	}
	r.Floor(rule, "stores with a MarkSeen", n, 2)
}
