package rules

import (
	"fmt"
	"go/token"
	"sort"
	"strings"

	"golang.org/x/tools/go/ssa"

	"ibcheck/eng"
)

// smtpTS is the typestate model of one SMTP session:
//
//	A = Session.state (State constant), B = envelope recipients (0 empty, 1 non-empty,
//	2 unknown), C = final replies sent since the last input read (0, 1, 2 = two or more).
//
// Command strings are not tracked (every switch arm on the command is possible), so any
// invariant established here holds for every command history.
type smtpTS struct {
	c        *Ctx
	m        *smtpModel
	ts       *eng.TS
	modState map[*ssa.Function]bool
	modRecip map[*ssa.Function]bool
	events   map[string][]tsEvent
	stale    map[[2]ssa.Instruction]bool
	undec    []string
	exits    []eng.TSConfig
}

type tsEvent struct {
	in   ssa.Instruction
	cfg  eng.TSConfig
	note string
}

const (
	rcEmpty    = 0
	rcNonEmpty = 1
	rcUnknown  = 2
)

func (c *Ctx) smtpTypestate(m *smtpModel) *smtpTS {
	t := &smtpTS{c: c, m: m, events: map[string][]tsEvent{}, stale: map[[2]ssa.Instruction]bool{},
		modState: map[*ssa.Function]bool{}, modRecip: map[*ssa.Function]bool{}}
	// mod-sets: functions of the package that may (transitively) write state / recipients
	direct := func(fn *ssa.Function) (st, rc bool) {
		eng.EachInstr(fn, func(in ssa.Instruction) {
			if s, ok := in.(*ssa.Store); ok {
				if fa, ok := s.Addr.(*ssa.FieldAddr); ok {
					f := eng.FieldOfAddr(fa)
					if eng.SameField(f, m.fState) {
						st = true
					}
					if eng.SameField(f, m.fRecips) {
						rc = true
					}
				}
			}
		})
		return
	}
	for _, fn := range m.fns {
		for g := range c.P.ReachModule(fn) {
			st, rc := direct(g)
			if st {
				t.modState[fn] = true
			}
			if rc {
				t.modRecip[fn] = true
			}
		}
	}
	t.ts = eng.NewTS(t)
	entry := eng.TSConfig{A: m.states["GREET"], B: rcEmpty, C: 0}
	t.exits = t.ts.Exec(m.root, entry)
	return t
}

func (t *smtpTS) ev(kind string, in ssa.Instruction, c eng.TSConfig, note string) {
	t.events[kind] = append(t.events[kind], tsEvent{in, c, note})
}

// Descend: every function of the smtp package except the role functions that are modelled
// directly (state writer, reply writer, input reads).
func (t *smtpTS) Descend(fn *ssa.Function) bool {
	if eng.FuncPkgPath(fn) != eng.Mod+"/"+smtpRel {
		return false
	}
	switch fn {
	case t.m.stateWriter, t.m.send, t.m.readLine, t.m.dataRead:
		return false
	}
	if t.m.isSendWrapper(fn) || t.m.macro(fn) != nil {
		return false
	}
	return fn.Blocks != nil
}

func (t *smtpTS) Step(in ssa.Instruction, c eng.TSConfig) []eng.TSConfig {
	m := t.m
	switch x := in.(type) {
	case *ssa.Call:
		callee := eng.StaticCallee(x.Common())
		switch {
		case m.macro(callee) != nil:
			// reply, then transition, with the caller's arguments (in the helper's order)
			mc := m.macro(callee)
			doSend := func() {
				pre, ok := m.sendPrefix(in)
				cl := replyClass(pre, ok)
				t.ev("reply", in, c, string(cl))
				if cl != 'c' && c.C < 2 {
					c.C++
				}
			}
			doState := func() {
				k, isConst, _ := m.stateArg(in)
				if !isConst {
					t.undec = append(t.undec, "state writer called with a non-constant state at "+t.c.P.InstrPos(in))
					return
				}
				t.ev("enter:"+m.stateName[k], in, c, "")
				c.A = k
			}
			if mc.send.Pos() < mc.state.Pos() {
				doSend()
				doState()
			} else {
				doState()
				doSend()
			}
		case callee == m.stateWriter:
			k, isConst, _ := m.stateArg(in)
			if !isConst {
				t.undec = append(t.undec, "state writer called with a non-constant state at "+t.c.P.InstrPos(in))
				return []eng.TSConfig{c}
			}
			t.ev("enter:"+m.stateName[k], in, c, "")
			c.A = k
		case callee == m.send || m.isSendWrapper(callee):
			pre, ok := m.sendPrefix(in)
			cl := replyClass(pre, ok)
			t.ev("reply", in, c, string(cl))
			if cl != 'c' {
				if c.C < 2 {
					c.C++
				}
			}
		case callee == m.readLine || callee == m.dataRead:
			t.ev("read", in, c, "")
			c.C = 0
			c.D = 0
		case eng.IsCallTo(x.Common(), m.deliverObj):
			t.ev("deliver", in, c, "")
		}
	case *ssa.Store:
		fa, ok := x.Addr.(*ssa.FieldAddr)
		if !ok {
			break
		}
		f := eng.FieldOfAddr(fa)
		switch {
		case m.storesEnvelope(x):
			if _, fresh := fa.X.(*ssa.Alloc); fresh {
				break // the session under construction
			}
			if m.zeroesEnvelope(x) {
				c.B = rcEmpty
				t.ev("recips:clear", in, c, "")
				t.ev("from:clear", in, c, "")
			} else {
				c.B = rcUnknown
				t.undec = append(t.undec, "unclassified store to the session's envelope record at "+t.c.P.InstrPos(in))
			}
		case eng.SameField(f, m.fRecips):
			switch v := x.Val.(type) {
			case *ssa.Const:
				if v.IsNil() {
					c.B = rcEmpty
					t.ev("recips:clear", in, c, "")
				}
			case *ssa.MakeSlice:
				if k, ok := eng.ConstInt(v.Len); ok && k == 0 {
					c.B = rcEmpty
				} else {
					c.B = rcUnknown
				}
			case *ssa.Slice:
				// make([]T, 0) with a constant length: slice of a fresh zero-length array
				if k, ok := eng.ConstInt(v.High); ok && k == 0 {
					c.B = rcEmpty
				} else if al, ok := v.X.(*ssa.Alloc); ok && strings.HasPrefix(eng.ShortType(al.Type()), "*[0]") {
					c.B = rcEmpty
				} else {
					c.B = rcUnknown
					t.undec = append(t.undec, "unclassified store to Session.recipients at "+t.c.P.InstrPos(in))
				}
			case *ssa.Call:
				if eng.CalleeName(v.Common()) == "builtin.append" && eng.SameField(eng.LoadedField(v.Call.Args[0]), m.fRecips) {
					t.ev("recips:append", in, c, "")
					c.B = rcNonEmpty
				} else {
					c.B = rcUnknown
					t.undec = append(t.undec, "unclassified store to Session.recipients at "+t.c.P.InstrPos(in))
				}
			default:
				c.B = rcUnknown
				t.undec = append(t.undec, "unclassified store to Session.recipients at "+t.c.P.InstrPos(in))
			}
		case eng.SameField(f, m.fFrom):
			if eng.IsNilConst(x.Val) {
				t.ev("from:clear", in, c, "")
			} else {
				t.ev("from:set", in, c, "")
			}
		case eng.SameField(f, m.fState):
			if _, fresh := fa.X.(*ssa.Alloc); !fresh {
				t.undec = append(t.undec, "direct store to Session.state outside the state writer at "+t.c.P.InstrPos(in))
			} else if k, ok := eng.ConstInt(x.Val); ok {
				c.A = k
			}
		}
	}
	return []eng.TSConfig{c}
}

// isStale: a state/recipients-modifying instruction may execute between load and use.
func (t *smtpTS) isStale(load ssa.Instruction, use ssa.Instruction, mod map[*ssa.Function]bool, field string) bool {
	key := [2]ssa.Instruction{load, use}
	if v, ok := t.stale[key]; ok {
		return v
	}
	isMod := func(in ssa.Instruction) bool {
		switch x := in.(type) {
		case *ssa.Call:
			if g := eng.StaticCallee(x.Common()); g != nil && mod[g] {
				return true
			}
			if x.Call.IsInvoke() || eng.StaticCallee(x.Common()) == nil {
				// dynamic call: could it reach a modifier? only module callees matter
				for _, g := range t.c.P.Callees(x) {
					if mod[g] {
						return true
					}
				}
			}
		case *ssa.Store:
			if fa, ok := x.Addr.(*ssa.FieldAddr); ok {
				f := eng.FieldOfAddr(fa)
				if field == "state" && eng.SameField(f, t.m.fState) || field == "recips" && eng.SameField(f, t.m.fRecips) {
					return true
				}
			}
		}
		return false
	}
	res := false
	if load.Parent() == use.Parent() {
		var mods []ssa.Instruction
		(&eng.Search{Target: func(in ssa.Instruction) bool {
			if isMod(in) {
				mods = append(mods, in)
			}
			return false
		}, Avoid: func(in ssa.Instruction) bool { return in == use }}).After(load)
		for _, mi := range mods {
			if (&eng.Search{Target: func(in ssa.Instruction) bool { return in == use }, Avoid: func(in ssa.Instruction) bool { return in == load }}).After(mi) != nil {
				res = true
			}
		}
	} else {
		res = true
	}
	t.stale[key] = res
	return res
}

func (t *smtpTS) Refine(b *ssa.BasicBlock, k int, c eng.TSConfig) (eng.TSConfig, bool) {
	r, ok := eng.EdgeRel(b, k)
	if !ok {
		return c, true
	}
	// D records that a greeting keyword arm (cmd == "HELO"/"EHLO") was taken since the last
	// input read
	if r.Op == token.EQL {
		s, isC := eng.ConstString(r.Y)
		if !isC {
			s, isC = eng.ConstString(r.X)
		}
		if isC && (s == "HELO" || s == "EHLO") {
			c.D = 1
			return c, true
		}
	}
	iff := eng.IfOf(b)
	// state comparisons
	x, y := r.X, r.Y
	if _, isC := eng.ConstInt(x); isC {
		x, y = y, x
		r = r.Swap()
	}
	if kk, isC := eng.ConstInt(y); isC {
		if f := eng.LoadedField(x); eng.SameField(f, t.m.fState) {
			if li, ok := x.(ssa.Instruction); ok && !t.isStale(li, iff, t.modState, "state") {
				switch r.Op {
				case token.EQL:
					return c, c.A == kk
				case token.NEQ:
					return c, c.A != kk
				}
			}
			return c, true
		}
		// len(recipients) REL const
		if lx := eng.LenOf(x); lx != nil && eng.SameField(eng.LoadedField(lx), t.m.fRecips) {
			li, ok := lx.(ssa.Instruction)
			if !ok || t.isStale(li, iff, t.modRecip, "recips") || c.B == rcUnknown {
				return c, true
			}
			isZeroTest := (r.Op == token.EQL && kk == 0) || (r.Op == token.LEQ && kk == 0) || (r.Op == token.LSS && kk == 1)
			isNonZeroTest := (r.Op == token.NEQ && kk == 0) || (r.Op == token.GTR && kk == 0) || (r.Op == token.GEQ && kk == 1)
			if isZeroTest {
				return c, c.B == rcEmpty
			}
			if isNonZeroTest {
				return c, c.B == rcNonEmpty
			}
		}
	}
	return c, true
}

func (t *smtpTS) cfgStr(c eng.TSConfig) string {
	rc := []string{"empty", "non-empty", "unknown"}[c.B]
	return fmt.Sprintf("state=%s recipients=%s replies=%d", t.m.stateName[c.A], rc, c.C)
}

func (t *smtpTS) cfgSet(evs []tsEvent) string {
	seen := map[string]bool{}
	var out []string
	for _, e := range evs {
		s := t.cfgStr(e.cfg)
		if !seen[s] {
			seen[s] = true
			out = append(out, s)
		}
	}
	sort.Strings(out)
	return strings.Join(out, " | ")
}

// bySite groups events of a kind by instruction.
func (t *smtpTS) bySite(kind string) map[ssa.Instruction][]tsEvent {
	out := map[ssa.Instruction][]tsEvent{}
	for _, e := range t.events[kind] {
		out[e.in] = append(out[e.in], e)
	}
	return out
}

// sortedSites returns instruction keys ordered by position.
func sortedSites(m map[ssa.Instruction][]tsEvent) []ssa.Instruction {
	var ks []ssa.Instruction
	for k := range m {
		ks = append(ks, k)
	}
	sort.Slice(ks, func(i, j int) bool {
		if ks[i].Pos() != ks[j].Pos() {
			return ks[i].Pos() < ks[j].Pos()
		}
		return ks[i].String() < ks[j].String()
	})
	return ks
}

// siteCons names a site by its enclosing function plus ordinal among same-kind sites there.
func siteCons(p *eng.Prog, in ssa.Instruction, ord map[string]int, kind string) string {
	fn := shortFn(in.Parent())
	k := kind + "@" + fn
	ord[k]++
	if ord[k] > 1 {
		return fmt.Sprintf("%s#%d", k, ord[k])
	}
	return k
}

// EvalBool: the truth of `s.state == K` / `s.state != K` in configuration c, for a load of the
// state made right before its use (no call in between).
func (t *smtpTS) EvalBool(v ssa.Value, c eng.TSConfig) (bool, bool) {
	r, ok := eng.CondRel(v)
	if !ok {
		return false, false
	}
	kk, isC := eng.ConstInt(r.Y)
	if !isC || !eng.SameField(eng.LoadedField(r.X), t.m.fState) {
		return false, false
	}
	ld, isIn := r.X.(ssa.Instruction)
	bo, isBo := v.(ssa.Instruction)
	if !isIn || !isBo || ld.Block() != bo.Block() {
		return false, false
	}
	seenLoad := false
	for _, in := range ld.Block().Instrs {
		if in == ld {
			seenLoad = true
			continue
		}
		if in == bo {
			break
		}
		if seenLoad {
			if _, isCall := in.(*ssa.Call); isCall {
				return false, false
			}
		}
	}
	switch r.Op {
	case token.EQL:
		return c.A == kk, true
	case token.NEQ:
		return c.A != kk, true
	}
	return false, false
}

// ResolveCallees: a function taken from a package-level table under a key the configuration does
// not determine (a mechanism name, a command word): any of them.
func (t *smtpTS) ResolveCallees(call *ssa.Call, c eng.TSConfig) []*ssa.Function {
	return eng.TableCallees(call.Call.Value)
}

// ResolveCallee: a handler taken from a package-level table keyed by the session state.
func (t *smtpTS) ResolveCallee(call *ssa.Call, c eng.TSConfig) *ssa.Function {
	return eng.TableCallee(call.Call.Value, func(idx ssa.Value) (int64, bool) {
		if eng.SameField(eng.LoadedField(eng.StripConv(idx)), t.m.fState) {
			return c.A, true
		}
		return 0, false
	})
}
