package selftest

import (
	"fmt"
	"go/types"
	"os"
	"path/filepath"

	"golang.org/x/tools/go/packages"
	"golang.org/x/tools/go/ssa"
	"golang.org/x/tools/go/ssa/ssautil"

	"ibcheck/eng"
)

// Canaries analyses the fixture package with the shared engines. It returns the list of
// failures (empty when every bad shape fires and every good shape is silent).
func Canaries(verif string) (ran int, failures []string) {
	dir := filepath.Join(verif, "fixtures", "canary")
	cfg := &packages.Config{Mode: packages.LoadAllSyntax, Dir: dir,
		Env: append(os.Environ(), "GOFLAGS=-mod=mod", "GOPROXY=off", "GOSUMDB=off", "GOWORK=off", "GOTOOLCHAIN=local")}
	pkgs, err := packages.Load(cfg, ".")
	if err != nil || len(pkgs) != 1 || len(pkgs[0].Errors) > 0 {
		return 0, []string{fmt.Sprintf("cannot load the canary fixture: %v %v", err, pkgs)}
	}
	prog, spkgs := ssautil.AllPackages(pkgs, ssa.InstantiateGenerics)
	prog.Build()
	sp := spkgs[0]
	fn := func(name string) *ssa.Function {
		if f := sp.Func(name); f != nil {
			return f
		}
		// methods
		for _, m := range sp.Members {
			if t, ok := m.(*ssa.Type); ok {
				ms := prog.MethodSets.MethodSet(types.NewPointer(t.Type()))
				for i := 0; i < ms.Len(); i++ {
					if ms.At(i).Obj().Name() == name {
						return prog.MethodValue(ms.At(i))
					}
				}
			}
		}
		return nil
	}
	expect := func(name string, got, want bool) {
		ran++
		if got != want {
			failures = append(failures, fmt.Sprintf("%s: engine reported %v, expected %v", name, got, want))
		}
	}
	// nil analysis
	an := eng.NewNilAn(&eng.Prog{})
	hasNilNil := func(f *ssa.Function) bool {
		for _, t := range an.TuplesOf(f) {
			if len(t.S) == 2 && t.S[0].MayBeNil() && t.S[1].MayBeNil() {
				return true
			}
		}
		return false
	}
	expect("nilret/GetBad", hasNilNil(fn("GetBad")), true)
	expect("nilret/GetGood", hasNilNil(fn("GetGood")), false)
	// lock release on all exits
	isLock := func(in ssa.Instruction) bool {
		c, ok := in.(*ssa.Call)
		return ok && eng.CalleeName(c.Common()) == "(*sync.Mutex).Lock"
	}
	isUnlock := eng.CallPred(func(cc *ssa.CallCommon) bool { return eng.CalleeName(cc) == "(*sync.Mutex).Unlock" })
	leaks := func(f *ssa.Function) bool {
		leak := false
		eng.EachInstr(f, func(in ssa.Instruction) {
			if isLock(in) {
				if ret := (&eng.Search{Target: eng.IsReturn, Avoid: isUnlock}).After(in); ret != nil && !eng.IsRecoverBlock(ret.Block()) {
					leak = true
				}
			}
		})
		return leak
	}
	expect("reach-avoid/LockBad", leaks(fn("LockBad")), true)
	expect("reach-avoid/LockGood", leaks(fn("LockGood")), false)
	// guarded-by
	unguarded := func(f *ssa.Function) bool {
		bad := false
		eng.EachInstr(f, func(in ssa.Instruction) {
			fa, ok := in.(*ssa.FieldAddr)
			if !ok || eng.FieldOfAddr(fa).Name() != "items" {
				return
			}
			if (&eng.Search{Target: func(x ssa.Instruction) bool { return x == in }, Avoid: isLock}).FromEntry(f) != nil {
				bad = true
			}
		})
		return bad
	}
	expect("guarded-by/GuardBad", unguarded(fn("GuardBad")), true)
	expect("guarded-by/LockGood", unguarded(fn("LockGood")), false)
	// close/send inventory
	var fns []*ssa.Function
	for f := range ssautil.AllFunctions(prog) {
		if f.Pkg == sp {
			fns = append(fns, f)
		}
	}
	ops := eng.ChanOps(fns)
	racy := map[string]bool{}
	for k, os := range ops {
		var closes, sends []eng.ChanOp
		for _, o := range os {
			switch o.Kind {
			case "close":
				closes = append(closes, o)
			case "send":
				sends = append(sends, o)
			}
		}
		for _, s := range sends {
			owner := false
			for _, c := range closes {
				if c.Fn == s.Fn && c.In.Block() == s.In.Block() && eng.Dominates(s.In, c.In) {
					owner = true
				}
			}
			if len(closes) > 0 && !owner {
				racy[k] = true
			}
		}
	}
	nRacy := 0
	for range racy {
		nRacy++
	}
	expect("chanops/close-race count", nRacy == 1, true)
	// spilled alias
	sg := fn("SpillGood")
	okSpill := false
	eng.EachInstr(sg, func(in ssa.Instruction) {
		ret, ok := in.(*ssa.Return)
		if !ok || eng.IsRecoverBlock(ret.Block()) {
			return
		}
		res := eng.ReturnResults(ret)
		if len(res) == 2 && eng.IsNilConst(res[1]) {
			// the success return must be dominated by err == nil of the call result
			var call ssa.Value
			eng.EachInstr(sg, func(x ssa.Instruction) {
				if c, ok := x.(*ssa.Call); ok && eng.CalleeName(c.Common()) == "canary.check" {
					call = c
				}
			})
			if call != nil && eng.KnownNil(call, ret.Block()) {
				okSpill = true
			}
		}
	})
	expect("aliases/SpillGood", okSpill, true)
	return ran, failures
}
