// Package selftest holds the engine canaries (every run) and the overlay mutants of the real
// source (thorough tier). Neither ever produces a property alarm: the property verdict
// depends only on the unmodified tree. A canary failure fails the run as SELFTEST-FAILED
// (the engines are broken, nothing they say can be believed); a missed mutant is recorded
// and printed but does not change the exit code.
package selftest

import (
	"encoding/json"
	"fmt"
	"os"
	"os/exec"
	"path/filepath"
	"sort"
	"strings"
	"sync"
	"time"

	"ibcheck/eng"
	"ibcheck/rep"
	"ibcheck/rules"
)

// Mutant is one seeded edit of the real source.
type Mutant struct {
	ID   string `json:"id"`
	Prop string `json:"prop"`
	File string `json:"file"`
	Old  string `json:"old"`
	New  string `json:"new"`
	// Old2/New2: an optional second edit of the same file (typically the import the first needs)
	Old2   string `json:"old2,omitempty"`
	New2   string `json:"new2,omitempty"`
	Expect string `json:"expect"` // rule-id prefix that must report a non-discharged obligation
	Note   string `json:"note"`
}

// Result of one mutant run.
type Result struct {
	ID     string   `json:"id"`
	Status string   `json:"status"` // fired | missed | skipped | no-compile | error
	Note   string   `json:"note,omitempty"`
	Keys   []string `json:"fired_keys,omitempty"`
	Detail string   `json:"detail,omitempty"`
}

func loadCorpus(verif string) ([]Mutant, error) {
	b, err := os.ReadFile(filepath.Join(verif, "selftest", "mutants.json"))
	if err != nil {
		return nil, err
	}
	var c struct {
		Mutants []Mutant `json:"mutants"`
	}
	if err := json.Unmarshal(b, &c); err != nil {
		return nil, err
	}
	return c.Mutants, nil
}

// Run executes the self-tests that belong to prop and records them in the report.
func Run(c *rules.Ctx, prop, repo, verif string) {
	if c.Tier != "thorough" {
		return
	}
	corpus, err := loadCorpus(verif)
	if err != nil {
		c.R.Selftest["mutants_error"] = err.Error()
		return
	}
	var mine []Mutant
	for _, m := range corpus {
		if m.Prop == prop {
			mine = append(mine, m)
		}
	}
	exe, err := os.Executable()
	if err != nil {
		c.R.Selftest["mutants_error"] = err.Error()
		return
	}
	results := make([]Result, len(mine))
	sem := make(chan struct{}, 6)
	var wg sync.WaitGroup
	for i, m := range mine {
		i, m := i, m
		wg.Add(1)
		go func() {
			defer wg.Done()
			sem <- struct{}{}
			defer func() { <-sem }()
			cmd := exec.Command(exe, "-mutant", m.ID, "-repo", repo, "-verif", verif)
			cmd.Env = os.Environ()
			out, err := cmd.Output()
			var res Result
			if jerr := json.Unmarshal(lastLine(out), &res); jerr != nil {
				res = Result{ID: m.ID, Status: "error", Detail: fmt.Sprintf("%v %v", err, jerr)}
			}
			res.Note = m.Note
			results[i] = res
		}()
	}
	wg.Wait()
	counts := map[string]int{}
	for _, r := range results {
		counts[r.Status]++
		if r.Status != "fired" && r.Status != "skipped" {
			fmt.Printf("SELFTEST-%s property=%s mutant=%s (%s) %s\n", strings.ToUpper(r.Status), prop, r.ID, r.Note, r.Detail)
		}
	}
	c.R.Selftest["mutants"] = results
	c.R.Selftest["mutant_counts"] = counts
	c.R.Analysed["selftest:overlay mutants run"] = len(results)
	c.R.Analysed["selftest:overlay mutants fired"] = counts["fired"]
}

func lastLine(b []byte) []byte {
	lines := strings.Split(strings.TrimSpace(string(b)), "\n")
	return []byte(lines[len(lines)-1])
}

// RunMutantWorker runs one overlay mutant in this process and prints its verdict as JSON.
func RunMutantWorker(repo, verif, id string) int {
	emit := func(r Result) int {
		b, _ := json.Marshal(r)
		fmt.Println(string(b))
		return 0
	}
	corpus, err := loadCorpus(verif)
	if err != nil {
		return emit(Result{ID: id, Status: "error", Detail: err.Error()})
	}
	var m *Mutant
	for i := range corpus {
		if corpus[i].ID == id {
			m = &corpus[i]
		}
	}
	if m == nil {
		return emit(Result{ID: id, Status: "error", Detail: "unknown mutant"})
	}
	path := filepath.Join(repo, m.File)
	src, err := os.ReadFile(path)
	if err != nil {
		return emit(Result{ID: id, Status: "skipped", Detail: "file missing"})
	}
	if strings.Count(string(src), m.Old) < 1 || m.Old == "" {
		return emit(Result{ID: id, Status: "skipped", Detail: "textual anchor not present in the current tree"})
	}
	mutated := strings.Replace(string(src), m.Old, m.New, 1)
	if m.Old2 != "" {
		if !strings.Contains(mutated, m.Old2) {
			return emit(Result{ID: id, Status: "skipped", Detail: "second textual anchor not present in the current tree"})
		}
		mutated = strings.Replace(mutated, m.Old2, m.New2, 1)
	}
	p, err := eng.Load(eng.LoadOpts{Dir: repo, Overlay: map[string][]byte{path: []byte(mutated)}})
	if err != nil {
		return emit(Result{ID: id, Status: "no-compile", Detail: firstLine(err.Error())})
	}
	r := rep.New(m.Prop, "quick", verif, time.Now())
	r.Quiet = true
	c := &rules.Ctx{P: p, R: r, Tier: "quick"}
	if !rules.Run(m.Prop, c) {
		return emit(Result{ID: id, Status: "error", Detail: "unknown property"})
	}
	var keys []string
	for _, o := range r.Obs {
		if o.Outcome != rep.Discharged && strings.HasPrefix(o.Key, m.Expect) {
			keys = append(keys, o.Key)
		}
	}
	sort.Strings(keys)
	if len(keys) > 0 {
		return emit(Result{ID: id, Status: "fired", Keys: keys})
	}
	var other []string
	for _, o := range r.Obs {
		if o.Outcome != rep.Discharged {
			other = append(other, o.Key)
		}
	}
	return emit(Result{ID: id, Status: "missed", Detail: fmt.Sprintf("expected a non-discharged %s…; non-discharged: %v", m.Expect, other)})
}

func firstLine(s string) string {
	if i := strings.Index(s, "\n"); i >= 0 {
		j := strings.Index(s[i+1:], "\n")
		if j >= 0 {
			return s[:i+1+j]
		}
	}
	return s
}
