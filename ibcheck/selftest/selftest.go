// Package selftest holds the canaries (every run) and overlay mutants (thorough tier).
package selftest

import (
	"ibcheck/rules"
)

// Run executes the self-tests that belong to prop and records them in the report.
func Run(c *rules.Ctx, prop, repo string) {
}

// RunMutantWorker runs one overlay mutant in this process and prints its verdict.
func RunMutantWorker(repo, id string) int { return 0 }
