#!/bin/sh
# Offline build of the checker from the module cache (golang.org/x/tools v0.29.0).
set -eu
cd "$(dirname "$0")"
. ./env.sh
mkdir -p bin evidence
cd ibcheck
go build -o ../bin/ibcheck .
echo "built bin/ibcheck"
