#!/bin/sh
# Usage: run.sh <property> <tier>
# Builds nothing: bin/ibcheck is produced by setup.sh. The checker itself loads and
# type-checks /repo's current working tree on every run.
set -u
cd "$(dirname "$0")"
. ./env.sh
[ -x bin/ibcheck ] || ./setup.sh >/dev/null 2>&1 || { echo "setup failed"; exit 2; }
exec bin/ibcheck -prop "$1" -tier "${2:-${VERIF_TIER:-quick}}" -repo "${VERIF_REPO:-/repo}" -verif "$(pwd)"
