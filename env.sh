# Sourced by every script: offline Go environment for the checker.
export GOFLAGS=-mod=mod GOPROXY=off GOSUMDB=off GOTOOLCHAIN=local GOWORK=off
export CGO_ENABLED=0
