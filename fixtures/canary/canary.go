// Package canary holds tiny bad/good shapes for the checker's engines. It is analysed on
// every run: each "Bad" shape must be reported and each "Good" one must not, otherwise the
// engines are broken and no property verdict is given.
package canary

import (
	"errors"
	"sync"
)

var ErrMissing = errors.New("missing")

type T struct {
	mu    sync.Mutex
	items map[string]*int
	c     chan int
}

// ---- nil-return analysis
func GetBad(t *T, k string) (*int, error) {
	v, ok := t.items[k]
	if !ok {
		return nil, nil
	}
	return v, nil
}

func GetGood(t *T, k string) (*int, error) {
	v := t.items[k]
	if v == nil {
		return nil, ErrMissing
	}
	return v, nil
}

// ---- reach-avoid / lock held
func LockBad(t *T, k string) *int {
	t.mu.Lock()
	if k == "" {
		return nil // returns with the lock held
	}
	v := t.items[k]
	t.mu.Unlock()
	return v
}

func LockGood(t *T, k string) *int {
	t.mu.Lock()
	defer t.mu.Unlock()
	if k == "" {
		return nil
	}
	return t.items[k]
}

func GuardBad(t *T, k string) *int {
	if k == "x" {
		return t.items[k] // no lock
	}
	t.mu.Lock()
	defer t.mu.Unlock()
	return t.items[k]
}

// ---- close/send race
func (t *T) SendBad(v int) { t.c <- v }
func (t *T) CloseBad()     { close(t.c) }

type U struct{ c chan int }

func (u *U) SendThenCloseGood(v int) {
	u.c <- v
	close(u.c)
}

// ---- spilled named result with defer (value aliases)
func SpillGood(t *T) (n int, err error) {
	t.mu.Lock()
	defer t.mu.Unlock()
	err = check(t)
	if err != nil {
		return 0, err
	}
	return len(t.items), nil
}

func check(t *T) error {
	if t.items == nil {
		return ErrMissing
	}
	return nil
}
