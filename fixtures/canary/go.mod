module canary

go 1.21
