#!/usr/bin/env python3
"""Hole finder: for every behaviour-preserving refactoring of the corpus, compare the number of
obligations each rule produces on the refactored tree with the number it produces on /repo.
A rule that yields fewer obligations on a refactored tree has stopped examining something the
refactoring merely moved (the check then passes because nothing is looked at, not because the
property was decided). Each drop is either explained (two functions merged into one, a helper
inlined) or a hole to close. Scratch copies live under /tmp and are removed.
Usage: keydiff.py [-j N] [Rnn ...]"""
import json, os, subprocess, sys, tempfile, shutil, collections
from concurrent.futures import ThreadPoolExecutor

IB = os.environ.get('IBCHECK', '/verif/bin/ibcheck')

def keys_of(evdir):
    cnt = collections.Counter()
    for f in sorted(os.listdir(evdir)):
        if not f.endswith('.json') or f.endswith('.violations.json'):
            continue
        d = json.load(open(os.path.join(evdir, f)))
        def walk(x):
            if isinstance(x, dict):
                if 'key' in x and 'outcome' in x:
                    parts = x['key'].split('/')
                    cnt['/'.join(parts[:3]) if len(parts) > 3 else '/'.join(parts[:2])] += 1
                for v in x.values():
                    walk(v)
            elif isinstance(x, list):
                for v in x:
                    walk(v)
        walk(d)
    return cnt

def run(repo):
    out = tempfile.mkdtemp(prefix='keydiff-out-')
    subprocess.run([IB, '-prop', 'all', '-verif', '/verif', '-repo', repo, '-out', out], capture_output=True, text=True)
    c = keys_of(os.path.join(out, 'evidence'))
    shutil.rmtree(out, ignore_errors=True)
    return c

def one(name):
    tmp = tempfile.mkdtemp(prefix='keydiff-')
    repo = os.path.join(tmp, 'repo')
    try:
        subprocess.run(['rsync', '-a', '--exclude', '.git', '/repo/', repo + '/'], check=True)
        a = subprocess.run(['patch', '-p1', '-s', '-i', '/verif/refactorings/%s/patch.diff' % name], cwd=repo, capture_output=True, text=True)
        if a.returncode != 0:
            return name, None
        return name, run(repo)
    finally:
        shutil.rmtree(tmp, ignore_errors=True)

def main():
    args = sys.argv[1:]
    jobs = 6
    if args and args[0] == '-j':
        jobs = int(args[1]); args = args[2:]
    names = args or sorted(os.listdir('/verif/refactorings'))
    base = run('/repo')
    with ThreadPoolExecutor(max_workers=jobs) as ex:
        res = list(ex.map(one, names))
    total = 0
    for name, c in res:
        if c is None:
            print('== %s: patch does not apply' % name)
            continue
        drops = [(k, base[k], c.get(k, 0)) for k in sorted(base) if c.get(k, 0) < base[k]]
        total += len(drops)
        print('== %s: %d rule(s) with fewer obligations than on /repo' % (name, len(drops)))
        for k, b, n in drops:
            print('   %-55s %d -> %d' % (k, b, n))
    print('DROPS TOTAL', total)

if __name__ == '__main__':
    main()
