#!/usr/bin/env python3
"""Print the brief for a refactoring sub-agent (behaviour-preserving change in one area of the
code base, for the false-alarm corpus). Usage: refprompt.py <area 1-9> <worktree> <id>"""
import json, os, sys
area, wt, rid = int(sys.argv[1]), sys.argv[2], sys.argv[3]
AREAS = {
 1: ("the SMTP session handler", "pkg/server/smtp/handler.go"),
 2: ("the POP3 session handler", "pkg/server/pop3/handler.go"),
 3: ("the memory store and its size enforcer", "pkg/storage/mem/store.go, pkg/storage/mem/maxsize.go, pkg/storage/mem/message.go"),
 4: ("the file store", "pkg/storage/file/fstore.go, pkg/storage/file/mbox.go, pkg/storage/file/fmessage.go"),
 5: ("the message manager and the address/recipient policy", "pkg/message/manager.go, pkg/policy/address.go, pkg/policy/recipient.go, pkg/policy/origin.go, pkg/config/config.go"),
 6: ("the REST API controllers, the web UI controllers and the Go REST client", "pkg/rest/apiv1_controller.go, pkg/rest/socketv1_controller.go, pkg/rest/socketv2_controller.go, pkg/webui/mailbox_controller.go, pkg/rest/client/*.go, pkg/server/web/*.go"),
 7: ("the message hub, the extension event brokers and the retention scanner", "pkg/msghub/hub.go, pkg/extension/broker.go, pkg/extension/async_broker.go, pkg/storage/retention.go"),
 8: ("the HTML/CSS sanitiser, TextToHTML and the Lua extension host", "pkg/webui/sanitize/html.go, pkg/webui/sanitize/css.go, pkg/server/web/helpers.go, pkg/extension/luahost/lua.go, pkg/extension/luahost/pool.go, pkg/extension/luahost/bind_*.go"),
 9: ("the SMTP and POP3 listeners, the service lifecycle and main", "pkg/server/smtp/listener.go, pkg/server/pop3/listener.go, pkg/server/lifecycle.go, cmd/inbucket/main.go"),
}
what, files = AREAS[area]
earlier = []
for b in ['', '2', '3', '4', '5', '6', '7', '8']:
    d = '/verif/refactorings/R%s%d' % (b, area)
    if os.path.exists(d + '/meta.json'):
        s = json.load(open(d + '/meta.json')).get('summary', '').replace('\n', ' ')
        earlier.append('- ' + s[:600] + ('…' if len(s) > 600 else ''))
print(f"""You are a senior Go developer doing maintenance work on inbucket (a disposable-email test
server: SMTP and POP3 servers, file and memory mailbox stores, REST/WebSocket API, Lua hooks).
You have your own scratch git worktree at {wt} — work only there (never in /repo, never in
/verif; do not read /verif).

Every shell call needs: export GOFLAGS=-mod=mod GOPROXY=off GOSUMDB=off GOTOOLCHAIN=local GOWORK=off
(there is no network). Build: go build ./... ; vet: go vet ./... ; tests:
go test -vet=off -count=1 -p 1 ./...   (if pkg/test fails on a busy port 2500/9000, another job is
running: wrap the command in `unshare -n sh -c 'ip link set lo up; …'`).

TASK. Make a SIZEABLE REFACTORING of {what} ({files}) that changes NO observable behaviour:
same replies, same stored data, same events, same ordering, same locking and goroutine
structure as seen from outside, same error values. Aim for 80–250 changed lines, and for
restructurings a reviewer would accept as clean-ups: extract or inline helpers, introduce small
types or carrier structs, turn closures into methods or the reverse, table-driven dispatch,
early returns versus nested ifs, iterators and callbacks versus loops, flags versus returns,
generic helpers, renamed and regrouped fields, constants, splitting or merging functions,
moving code between files of the same package. Combine several of these.

Colleagues have already refactored this area several times; here is what they did (their
changes are NOT in your tree — you start from the original code). Do something of ANOTHER KIND:
different constructs, different decomposition, different idioms than any of these:
{chr(10).join(earlier) if earlier else '- (none)'}

RULES. Do not touch *_test.go files. Do not change exported API that other packages or tests
use unless you adapt every use. Do not fix bugs or change behaviour in corner cases, even if
you see something odd — note it in meta.json instead. Keep comments truthful.

DELIVERABLES in {wt}/_out/ (create it):
1. patch.diff — `git diff` of your change (must apply with `git apply` to a clean checkout).
2. meta.json — {{"id": "{rid}", "summary": "<what you restructured, construct by construct>",
   "why_behaviour_preserving": "<argument, path by path where it matters>", "verified": "<commands
   you ran and their results>"}}

VERIFY before finishing: gofmt -l is clean, go build and go vet pass, the whole test suite passes
(unedited). Re-read your diff line by line for accidental behaviour changes (reordered effects,
a dropped return, a changed condition, a lock held longer or shorter, an error swallowed).
Leave the change applied in the worktree AND the patch in _out/.
Your final message: a 5-line summary.""")
