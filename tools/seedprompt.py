#!/usr/bin/env python3
"""Print the brief for a seeding sub-agent: the property's text, its scratch worktree, and one
line per earlier change against that property (so the new one attacks another clause).
Nothing about the checks is included. Usage: seedprompt.py <Cxx> <worktree>"""
import json, glob, os, sys
prop, wt = sys.argv[1], sys.argv[2]
line = [l for l in open('/verif/properties.jsonl') if json.loads(l)['id'] == prop][0].strip()
earlier = []
for d in sorted(glob.glob('/verif/seeded/%s-*' % prop) + glob.glob('/verif/seeded-refactored/%s-*' % prop)):
    m = json.load(open(d + '/meta.json'))
    s = m['summary'].replace('\n', ' ')
    earlier.append('- ' + (s[:420] + ('…' if len(s) > 420 else '')))
print(f"""You are testing how well a code base's safety nets catch subtle regressions. The code base is
inbucket (a disposable-email test server written in Go: SMTP and POP3 servers, file and memory
mailbox stores, REST/WebSocket API, Lua hooks). You have your own scratch git worktree of it at
{wt} — work only there (never in /repo, never in /verif; do not read /verif).

Every shell call needs: export GOFLAGS=-mod=mod GOPROXY=off GOSUMDB=off GOTOOLCHAIN=local GOWORK=off
(there is no network). Build: go build ./... ; test suite: go test -vet=off -count=1 -p 1 ./...

Here is a semantic property of inbucket that users rely on (JSON):

{line}

TASK. Make ONE change to inbucket's non-test source in your worktree that BREAKS this property,
such that (1) everything still compiles, (2) the existing test suite, unedited, still passes, and
(3) the breakage needs something specific to manifest — a particular interleaving, a crash or
fault at a particular point, a multi-step sequence of operations, an unusual input or
configuration, or two cooperating sites that each look fine alone — NOT something ordinary use
would expose at once. The change should look like something a well-meaning developer could
plausibly commit (an optimisation, a tidy-up, a refactoring with a slip, a feature with a missed
corner), typically 5–60 changed lines; do not write comments that give it away.

Earlier changes already made against this property by colleagues (do NOT repeat these; pick a
DIFFERENT clause of the property, a different file or mechanism, or a different trigger):
{chr(10).join(earlier) if earlier else '- (none)'}

Read the code first and think about which clauses of the property statement have not been
attacked yet. Prefer a clause/mechanism that is far from the ones above.

DELIVERABLES, all in {wt}/_out/ (create the directory):
1. patch.diff — `git diff` of your change to non-test source only (must apply with `git apply`
   to a clean checkout of the worktree's HEAD).
2. a demonstration: ONE new Go test file (name it seeded_{prop.lower()}_test.go, test function
   names starting with TestSeeded) that FAILS with your change and PASSES without it. It must be
   deterministic enough to fail reliably with the change (loop/retry inside the test if it needs
   an interleaving; use fault injection via the filesystem, tiny limits, etc.). It must not
   modify existing files. Keep a copy in _out/.
3. demo_path.txt — the path, relative to the worktree root, where the test file must be placed
   to run (e.g. pkg/storage/mem/seeded_{prop.lower()}_test.go).
4. meta.json — {{"property": "{prop}", "summary": "<what you changed and why it breaks the
   property>", "needs": "<what it needs in order to manifest>", "demo_cmd": "<command>",
   "verified": "<what you ran and saw>"}}

Before finishing, VERIFY all of it yourself: with the change applied the build and the whole
existing suite pass and your test fails; after `git checkout -- .` (change removed, your test
file still in place) your test passes. Then leave the worktree clean (git checkout -- . and
remove your test file from the tree; keep only _out/). If you cannot find a change that passes
the existing suite, say so plainly rather than handing in something unverified.
Your final message: a 5-line summary (file, mechanism, trigger, verification result).""")
