#!/usr/bin/env python3
"""Re-run every check against each seeded change and refresh seeded/<id>/meta.json
(checks_fired); prints a summary table. Usage: reseed.py [name ...]"""
import json, os, subprocess, sys
base='/verif/seeded'
names = sys.argv[1:] or sorted(os.listdir(base))
for n in names:
    d=os.path.join(base,n)
    meta=json.load(open(os.path.join(d,'meta.json')))
    c=subprocess.run(['python3','/verif/tools/seedcheck.py',os.path.join(d,'patch.diff')],capture_output=True,text=True)
    lines=[l for l in c.stdout.strip().splitlines()]
    meta['checks_fired']=lines
    keys=[l.split()[2] for l in lines if l[:1]=='C' and len(l.split())>2]
    meta['fired_keys']=keys
    json.dump(meta,open(os.path.join(d,'meta.json'),'w'),indent=1)
    own=[k for k in keys if k.startswith(meta['property']+'/')]
    print("%-8s prop=%s fired=%d own=%d %s" % (n, meta['property'], len(keys), len(own), ', '.join(sorted(set(k.split('/')[0]+'/'+k.split('/')[1] for k in keys)))[:120]))
