#!/usr/bin/env python3
"""Run every check against the breaking changes that were made on top of a refactored tree
(seeded-refactored/<id>/: patch.diff relative to /repo + refactorings/<base>/patch.diff).
Each runs on its own scratch copy under /tmp. Usage: rseeds.py [-j N] [name ...]"""
import json, os, subprocess, sys, tempfile, shutil
from concurrent.futures import ThreadPoolExecutor
ENV = dict(os.environ, GOFLAGS='-mod=mod', GOPROXY='off', GOSUMDB='off', GOTOOLCHAIN='local', GOWORK='off')
ROOT = '/verif/seeded-refactored'
def run_one(n):
    meta = json.load(open(os.path.join(ROOT, n, 'meta.json')))
    tmp = tempfile.mkdtemp(prefix='rseed-'); repo = os.path.join(tmp, 'repo'); out = os.path.join(tmp, 'out')
    try:
        subprocess.run(['rsync', '-a', '--exclude', '.git', '/repo/', repo + '/'], check=True)
        for pf in ['/verif/refactorings/%s/patch.diff' % meta['base'], os.path.join(ROOT, n, 'patch.diff')]:
            a = subprocess.run(['patch', '-p1', '-s', '-i', pf], cwd=repo, capture_output=True, text=True)
            if a.returncode != 0:
                return n, meta, ['PATCH DOES NOT APPLY: ' + pf]
        b = subprocess.run(['go', 'build', './...'], cwd=repo, env=ENV, capture_output=True, text=True)
        if b.returncode != 0:
            return n, meta, ['DOES NOT COMPILE']
        subprocess.run([os.environ.get('IBCHECK', '/verif/bin/ibcheck'), '-prop', 'all', '-verif', '/verif', '-repo', repo, '-out', out], capture_output=True, text=True)
        keys = []
        ev = os.path.join(out, 'evidence')
        for f in sorted(os.listdir(ev)):
            if f.endswith('.violations.json'):
                v = json.load(open(os.path.join(ev, f)))
                keys += [o['key'] for o in v['violations']]
        return n, meta, keys
    finally:
        shutil.rmtree(tmp, ignore_errors=True)
def main():
    args = sys.argv[1:]; jobs = 6
    if args and args[0] == '-j':
        jobs = int(args[1]); args = args[2:]
    names = [n for n in sorted(os.listdir(ROOT)) if not args or n in args]
    with ThreadPoolExecutor(max_workers=jobs) as ex:
        res = list(ex.map(run_one, names))
    missed = []
    for n, meta, keys in res:
        own = [k for k in keys if k.startswith(meta['property'] + '/')]
        meta['fired_keys'] = keys
        json.dump(meta, open(os.path.join(ROOT, n, 'meta.json'), 'w'), indent=1)
        print('%-10s base=%s prop=%s fired=%d own=%d %s' % (n, meta['base'], meta['property'], len(keys), len(own), ', '.join(sorted(set('/'.join(k.split('/')[:2]) for k in keys)))[:120]))
        if not own:
            missed.append(n)
    print('NOT CAUGHT BY THEIR OWN PROPERTY:', ' '.join(missed) or 'none')
if __name__ == '__main__':
    main()
