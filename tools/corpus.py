#!/usr/bin/env python3
"""Run every check against every seeded change and every behaviour-preserving refactoring, in
parallel, each on its own scratch copy of /repo's working tree (made under /tmp and removed
again). Seeds: refreshes seeded/<id>/meta.json (checks_fired, fired_keys) and reports which are
caught by their own property. Refactorings: any firing is a false alarm.
Usage: corpus.py [-j N] [seeds|refs|all] [name ...]"""
import json, os, subprocess, sys, tempfile, shutil
from concurrent.futures import ThreadPoolExecutor

ENV = dict(os.environ, GOFLAGS='-mod=mod', GOPROXY='off', GOSUMDB='off', GOTOOLCHAIN='local', GOWORK='off')

def run_one(patch):
    tmp = tempfile.mkdtemp(prefix='corpus-')
    repo = os.path.join(tmp, 'repo')
    out = os.path.join(tmp, 'out')
    try:
        subprocess.run(['rsync', '-a', '--exclude', '.git', '/repo/', repo + '/'], check=True)
        a = subprocess.run(['git', 'apply', '--unsafe-paths', '--directory', repo, patch], cwd='/', capture_output=True, text=True)
        if a.returncode != 0:
            # plain patch as a fallback (git apply outside a work tree can be picky)
            a = subprocess.run(['patch', '-p1', '-s', '-i', patch], cwd=repo, capture_output=True, text=True)
            if a.returncode != 0:
                return ['PATCH DOES NOT APPLY: ' + (a.stderr or a.stdout)[:300]]
        b = subprocess.run(['go', 'build', './...'], cwd=repo, env=ENV, capture_output=True, text=True)
        if b.returncode != 0:
            return ['DOES NOT COMPILE: ' + b.stderr[:300]]
        r = subprocess.run([os.environ.get('IBCHECK', '/verif/bin/ibcheck'), '-prop', 'all', '-verif', '/verif', '-repo', repo, '-out', out], capture_output=True, text=True)
        lines = []
        if r.returncode not in (0, 1):
            lines.append('CHECKER CRASHED (exit %d): %s' % (r.returncode, (r.stderr or r.stdout)[-300:]))
        ev = os.path.join(out, 'evidence')
        if not os.path.isdir(ev):
            return lines + ['CHECKER PRODUCED NO EVIDENCE']
        for f in sorted(os.listdir(ev)):
            if f.endswith('.violations.json'):
                v = json.load(open(os.path.join(ev, f)))
                for o in v['violations']:
                    lines.append('%s %s %s' % (v['property_id'], o['outcome'].upper(), o['key']))
                    lines.append('      ' + o.get('detail', '')[:160].replace(repo + '/', ''))
        return lines or ['NO CHECK FIRED']
    finally:
        shutil.rmtree(tmp, ignore_errors=True)

def main():
    args = sys.argv[1:]
    jobs = 6
    if args and args[0] == '-j':
        jobs = int(args[1]); args = args[2:]
    what = args[0] if args else 'all'
    names = args[1:]
    work = []
    if what in ('seeds', 'all'):
        for n in sorted(os.listdir('/verif/seeded')):
            if not names or n in names:
                work.append(('seed', n, '/verif/seeded/%s/patch.diff' % n))
    if what in ('refs', 'all'):
        for n in sorted(os.listdir('/verif/refactorings')):
            if not names or n in names:
                work.append(('ref', n, '/verif/refactorings/%s/patch.diff' % n))
    with ThreadPoolExecutor(max_workers=jobs) as ex:
        results = list(ex.map(lambda w: run_one(w[2]), work))
    missed, alarms = [], 0
    for (kind, n, patch), lines in zip(work, results):
        if kind == 'seed':
            d = '/verif/seeded/' + n
            meta = json.load(open(d + '/meta.json'))
            meta['checks_fired'] = lines
            keys = [l.split()[2] for l in lines if l[:1] == 'C' and len(l.split()) > 2 and not l.startswith('CHECKER')]
            meta['fired_keys'] = keys
            json.dump(meta, open(d + '/meta.json', 'w'), indent=1)
            own = [k for k in keys if k.startswith(meta['property'] + '/')]
            bad = [l for l in lines if 'CRASHED' in l or 'NOT' in l.split(':')[0] or 'NO EVIDENCE' in l]
            print('%-8s prop=%s fired=%d own=%d %s %s' % (n, meta['property'], len(keys), len(own),
                  ', '.join(sorted(set('/'.join(k.split('/')[:2]) for k in keys)))[:110], ' '.join(bad)[:80]))
            if not own:
                missed.append(n)
        else:
            fa = [l for l in lines if l[:1] == 'C' or 'NOT' in l or 'COMPILE' in l or 'CRASHED' in l or 'NO EVIDENCE' in l]
            alarms += len(fa)
            print('== %s: %d false alarm(s)' % (n, len(fa)))
            for l in fa:
                print('   ' + l[:200])
    print('SEEDS NOT CAUGHT BY THEIR OWN PROPERTY:', ' '.join(missed) or 'none')
    print('FALSE ALARMS TOTAL', alarms)

if __name__ == '__main__':
    main()
