#!/usr/bin/env python3
"""Generates /verif/MANIFEST.json from the table below (one entry per property).
A property without an entry in CHECKS is listed under not_applicable with its reason."""
import json, os, sys

HERE = os.path.dirname(os.path.dirname(os.path.abspath(__file__)))
ALL = ["C%02d" % i for i in range(1, 20)]

# id -> (technique, claim text, level note, design ref)
CHECKS = {}
NOT_APPLICABLE = {}

def claim(pid, technique, text, note, ref):
    CHECKS[pid] = (technique, text, note, ref)

exec(open(os.path.join(HERE, "tools", "claims.py")).read())

checks = []
for pid in ALL:
    if pid not in CHECKS:
        continue
    technique, text, note, ref = CHECKS[pid]
    checks.append({
        "property_id": pid,
        "quick_cmd": "./run.sh %s quick" % pid,
        "thorough_cmd": "./run.sh %s thorough" % pid,
        "evidence_file": "evidence/%s.json" % pid,
        "replay_cmd_template": "cat {path}",
        "engine": "ibcheck",
        "level_claimed": {"category": "other", "text": text, "design_ref": ref},
        "level_note": note,
        "technique": technique,
    })
na = []
for pid in ALL:
    if pid in CHECKS:
        continue
    na.append({"property_id": pid, "reason": NOT_APPLICABLE.get(pid, "static check for this property is not built yet (DESIGN.md section 8a build order); nothing is claimed")})

manifest = {
    "version": 1,
    "setup_cmd": "./setup.sh",
    "hooks": {
        "guard": "verif",
        "enable": "none needed: the checks are static analyses of /repo's working tree; no instrumentation is compiled into inbucket",
        "baseline_off_cmd": "cd /repo && GOFLAGS=-mod=mod GOPROXY=off GOSUMDB=off go test -vet=off -count=1 ./...",
        "source_commits": [],
        "add_only": True,
    },
    "engines": [{
        "name": "ibcheck",
        "path": "ibcheck/",
        "serves_properties": sorted(CHECKS),
        "kind_free_text": "repository-specific static analyser (go/packages + go/types + go/ssa, VTA-over-CHA call graph, CFG reach-avoid/dominance, field-writer sets, typestate abstract interpretation); loads /repo's current source on every run and never executes it",
    }],
    "checks": checks,
    "not_applicable": na,
    "notes": "All claims are at level 'other': each check decides, for every path / call site / writer / implementer, structural necessary conditions of the property (listed in the evidence file's coverage.explanation and DESIGN.md section 4) and states what it does not decide. Genuine defects found are repaired by 'fix:' commits in /repo or listed in known_findings.json.",
}
json.dump(manifest, open(os.path.join(HERE, "MANIFEST.json"), "w"), indent=1)
print("wrote MANIFEST.json: %d checks, %d not_applicable" % (len(checks), len(na)))
