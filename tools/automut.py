#!/usr/bin/env python3
"""Automatic mutation sweep (development helper, not a check).

For every syntactic mutant (tools/gomut) of the non-test source files the properties are
anchored in: does it compile, does the pinned suite still pass with it, and does any property
check report it?  A mutant that passes the suite and that no check reports is a *survivor*: it
is either irrelevant to every property (most are: logging, metrics, messages), equivalent, or a
hole in the rule set.  Survivors are triaged by reading (notes/automut-triage.md); holes become
rules.  The sweep itself runs no check that is registered in MANIFEST.json.

Each worker owns a scratch copy of the repository under /tmp (removed at the end); tests run in
a private network namespace (unshare -n) because the integration tests listen on fixed ports.

Usage: automut.py [-j N] [-repo DIR] [-o results.jsonl] [-files f1,f2…] [-ops a,b] [-sample K]
"""
import json, os, subprocess, sys, shutil, random, argparse, threading, queue, time

ap = argparse.ArgumentParser()
ap.add_argument('-j', type=int, default=6)
ap.add_argument('-repo', default=os.environ.get('VP_RUN_REPO', '/repo'))
ap.add_argument('-o', default='automut-results.jsonl')
ap.add_argument('-files', default='')
ap.add_argument('-ops', default='')
ap.add_argument('-sample', type=int, default=0)
ap.add_argument('-verif', default=os.path.dirname(os.path.dirname(os.path.abspath(__file__))))
ap.add_argument('-notests', action='store_true')
ap.add_argument('-survivors-of', dest='survivors_of', default='', help='only re-run the mutants that survived in that results file (same file and id)')
ap.add_argument('-tests-always', dest='tests_always', action='store_true', help='run the suite also for mutants a check reported')
args = ap.parse_args()

ENV = dict(os.environ, GOFLAGS='-mod=mod', GOPROXY='off', GOSUMDB='off', GOTOOLCHAIN='local', GOWORK='off', CGO_ENABLED='0')
VERIF = args.verif
WORK = '/tmp/automut-%d' % os.getpid()
os.makedirs(WORK, exist_ok=True)
GOMUT = os.path.join(WORK, 'gomut')
subprocess.run(['go', 'build', '-o', GOMUT, '.'], cwd=os.path.join(VERIF, 'tools', 'gomut'), env=ENV, check=True)
IBCHECK = os.path.join(WORK, 'ibcheck')
subprocess.run(['go', 'build', '-o', IBCHECK, '.'], cwd=os.path.join(VERIF, 'ibcheck'), env=ENV, check=True)

if args.files:
    files = args.files.split(',')
else:
    s = set()
    for l in open(os.path.join(VERIF, 'properties.jsonl')):
        for f in json.loads(l)['anchors']['files']:
            if f.endswith('.go') and not f.startswith('pkg/test/'):
                s.add(f)
    files = sorted(s)

work = []
for f in files:
    out = subprocess.run([GOMUT, '-list', os.path.join(args.repo, f)], capture_output=True, text=True).stdout
    for l in out.splitlines():
        m = json.loads(l); m['file'] = f
        if args.ops and m['op'] not in args.ops.split(','):
            continue
        work.append(m)
if args.survivors_of:
    keep = set()
    for l in open(args.survivors_of):
        r = json.loads(l)
        if r.get('status') == 'ok' and not r.get('fired') and r.get('tests') == 'pass':
            keep.add((r['file'], r['id'], r['old']))
    work = [m for m in work if (m['file'], m['id'], m['old']) in keep]
done = set()
if os.path.exists(args.o):
    for l in open(args.o):
        r = json.loads(l); done.add((r['file'], r['id']))
work = [m for m in work if (m['file'], m['id']) not in done]
if args.sample:
    random.seed(1); random.shuffle(work); work = work[:args.sample]
print('mutants to run:', len(work), flush=True)

q = queue.Queue()
for m in work: q.put(m)
lock = threading.Lock()
outf = open(args.o, 'a')

def worker(k):
    repo = os.path.join(WORK, 'w%d' % k, 'repo')
    ev = os.path.join(WORK, 'w%d' % k, 'out')
    os.makedirs(repo, exist_ok=True)
    subprocess.run(['rsync', '-a', '--delete', '--exclude', '.git', args.repo + '/', repo + '/'], check=True)
    while True:
        try: m = q.get_nowait()
        except queue.Empty: return
        path = os.path.join(repo, m['file'])
        orig = open(os.path.join(args.repo, m['file']), 'rb').read()
        res = dict(m)
        try:
            mut = subprocess.run([GOMUT, '-apply', str(m['id']), os.path.join(args.repo, m['file'])], capture_output=True).stdout
            open(path, 'wb').write(mut)
            b = subprocess.run(['go', 'build', './...'], cwd=repo, env=ENV, capture_output=True, text=True)
            if b.returncode != 0:
                res['status'] = 'nocompile'
            else:
                vt = subprocess.run(['go', 'vet', './' + os.path.dirname(m['file'])], cwd=repo, env=ENV, capture_output=True, text=True)
                res['vet_ok'] = vt.returncode == 0
                shutil.rmtree(ev, ignore_errors=True)
                r = subprocess.run([IBCHECK, '-prop', 'all', '-verif', VERIF, '-repo', repo, '-out', ev], capture_output=True, text=True, env=ENV)
                fired = []
                evd = os.path.join(ev, 'evidence')
                if r.returncode not in (0, 1) or not os.path.isdir(evd):
                    fired.append('CHECKER-CRASH ' + (r.stderr or r.stdout)[-200:])
                else:
                    for f in sorted(os.listdir(evd)):
                        if f.endswith('.violations.json'):
                            v = json.load(open(os.path.join(evd, f)))
                            for o in v['violations']:
                                fired.append('%s %s' % (o['outcome'], o['key']))
                res['fired'] = fired
                if args.notests or (fired and not args.tests_always):
                    res['tests'] = 'skipped'
                else:
                    try:
                        t = subprocess.run(['unshare', '-n', 'sh', '-c', 'ip link set lo up; exec go test -vet=off -timeout 120s ./...'],
                                           cwd=repo, env=ENV, capture_output=True, text=True, timeout=400)
                        res['tests'] = 'pass' if t.returncode == 0 else 'fail'
                        if t.returncode != 0:
                            res['test_fail'] = [l for l in t.stdout.splitlines() if l.startswith('--- FAIL') or l.startswith('FAIL')][:4]
                    except subprocess.TimeoutExpired:
                        res['tests'] = 'timeout'
                res['status'] = 'ok'
        except Exception as e:
            res['status'] = 'error: %r' % e
        finally:
            open(path, 'wb').write(orig)
        with lock:
            outf.write(json.dumps(res) + '\n'); outf.flush()

ts = [threading.Thread(target=worker, args=(k,)) for k in range(args.j)]
t0 = time.time()
for t in ts: t.start()
for t in ts: t.join()
shutil.rmtree(WORK, ignore_errors=True)
print('done in %.0fs' % (time.time() - t0))
