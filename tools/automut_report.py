#!/usr/bin/env python3
"""Summarise an automut results file: counts, and the survivors (suite passes, no check fires)."""
import json, sys, collections
rows = [json.loads(l) for l in open(sys.argv[1])]
st = collections.Counter()
surv = []
for r in rows:
    if r['status'] != 'ok': st[r['status']] += 1; continue
    if r.get('fired'): st['reported'] += 1; continue
    t = r.get('tests')
    if t == 'pass': st['survived'] += 1; surv.append(r)
    else: st['killed-by-suite(' + str(t) + ')'] += 1
print(dict(st), 'total', len(rows))
if len(sys.argv) > 2:
    for r in sorted(surv, key=lambda r: (r['file'], r['line'])):
        print('%s:%d [%s] %s | %s -> %s' % (r['file'], r['line'], r['op'], r['func'], r['old'][:70].replace('\n', ' '), r['new'][:30]))
