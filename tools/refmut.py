#!/usr/bin/env python3
"""Mutants of *refactored* trees: for each entry of selftest/refmutants.json apply the named
behaviour-preserving refactoring to a scratch copy of /repo, make the one-line breaking edit
there, and require the property's check to fire. This tests the generalised rules on the shapes
they were generalised for (a rule that learnt to accept a refactoring must still catch the
violation inside it). Development tool; scratch copies live under /tmp and are removed.
Usage: refmut.py [-j N] [id ...]"""
import json, os, subprocess, sys, tempfile, shutil
from concurrent.futures import ThreadPoolExecutor

ENV = dict(os.environ, GOFLAGS='-mod=mod', GOPROXY='off', GOSUMDB='off', GOTOOLCHAIN='local', GOWORK='off')

def run_one(m):
    tmp = tempfile.mkdtemp(prefix='refmut-')
    repo = os.path.join(tmp, 'repo'); out = os.path.join(tmp, 'out')
    try:
        subprocess.run(['rsync', '-a', '--exclude', '.git', '/repo/', repo + '/'], check=True)
        a = subprocess.run(['patch', '-p1', '-s', '-i', '/verif/refactorings/%s/patch.diff' % m['ref']], cwd=repo, capture_output=True, text=True)
        if a.returncode != 0:
            return 'REFACTORING DOES NOT APPLY'
        f = os.path.join(repo, m['file'])
        src = open(f).read()
        if src.count(m['old']) != 1:
            return 'EDIT ANCHOR FOUND %d TIMES' % src.count(m['old'])
        open(f, 'w').write(src.replace(m['old'], m['new'], 1))
        subprocess.run(['gofmt', '-l', f], cwd=repo, capture_output=True)
        b = subprocess.run(['go', 'build', './...'], cwd=repo, env=ENV, capture_output=True, text=True)
        if b.returncode != 0:
            return 'DOES NOT COMPILE: ' + b.stderr[:300]
        r = subprocess.run([os.environ.get('IBCHECK', '/verif/bin/ibcheck'), '-prop', m['prop'], '-verif', '/verif', '-repo', repo, '-out', out], capture_output=True, text=True)
        vf = os.path.join(out, 'evidence', m['prop'] + '.violations.json')
        if r.returncode == 0 or not os.path.exists(vf):
            return 'MISSED (exit %d)' % r.returncode
        v = json.load(open(vf))
        return 'fired: ' + ', '.join(sorted(set(o['key'] for o in v['violations'])))[:200]
    finally:
        shutil.rmtree(tmp, ignore_errors=True)

def main():
    args = sys.argv[1:]
    jobs = 6
    if args and args[0] == '-j':
        jobs = int(args[1]); args = args[2:]
    ms = [m for m in json.load(open('/verif/selftest/refmutants.json')) if not args or m['id'] in args]
    with ThreadPoolExecutor(max_workers=jobs) as ex:
        res = list(ex.map(run_one, ms))
    bad = 0
    for m, r in zip(ms, res):
        print('%-8s %-4s %s  [%s]' % (m['id'], m['prop'], r, m['note']))
        if not r.startswith('fired'):
            bad += 1
    print('REFACTORED-TREE MUTANTS: %d, not fired: %d' % (len(ms), bad))

if __name__ == '__main__':
    main()
