#!/usr/bin/env python3
"""Cross the two corpora: apply each overlay mutant of selftest/mutants.json to every
refactored tree in which its anchor text survived, in a file the refactoring touched, and
require the mutant's property check to fire there as it does on /repo. A miss is a rule that
the refactoring blinded. Scratch copies live under /tmp and are removed.
Usage: xmut.py [-j N] [Rnn ...]"""
import json, os, re, subprocess, sys, tempfile, shutil
from concurrent.futures import ThreadPoolExecutor

ENV = dict(os.environ, GOFLAGS='-mod=mod', GOPROXY='off', GOSUMDB='off', GOTOOLCHAIN='local', GOWORK='off')
IB = os.environ.get('IBCHECK', '/verif/bin/ibcheck')
MUTS = json.load(open('/verif/selftest/mutants.json'))['mutants']

def touched(ref):
    fs = set()
    for l in open('/verif/refactorings/%s/patch.diff' % ref):
        m = re.match(r'\+\+\+ b/(\S+)', l)
        if m:
            fs.add(m.group(1))
    return fs

def base_tree(ref):
    tmp = tempfile.mkdtemp(prefix='xmut-base-')
    subprocess.run(['rsync', '-a', '--exclude', '.git', '/repo/', tmp + '/'], check=True)
    a = subprocess.run(['patch', '-p1', '-s', '-i', '/verif/refactorings/%s/patch.diff' % ref], cwd=tmp, capture_output=True)
    return tmp if a.returncode == 0 else None

def run_one(job):
    ref, base, m = job
    tmp = tempfile.mkdtemp(prefix='xmut-')
    repo = os.path.join(tmp, 'repo'); out = os.path.join(tmp, 'out')
    try:
        subprocess.run(['rsync', '-a', base + '/', repo + '/'], check=True)
        f = os.path.join(repo, m['file'])
        src = open(f).read().replace(m['old'], m['new'], 1)
        if m.get('old2'):
            src = src.replace(m['old2'], m['new2'], 1)
        open(f, 'w').write(src)
        b = subprocess.run(['go', 'build', './...'], cwd=repo, env=ENV, capture_output=True, text=True)
        if b.returncode != 0:
            return ref, m['id'], 'no-compile'
        r = subprocess.run([IB, '-prop', m['prop'], '-verif', '/verif', '-repo', repo, '-out', out], capture_output=True, text=True)
        vf = os.path.join(out, 'evidence', m['prop'] + '.violations.json')
        if r.returncode == 0 or not os.path.exists(vf):
            return ref, m['id'], 'MISSED'
        return ref, m['id'], 'fired'
    finally:
        shutil.rmtree(tmp, ignore_errors=True)

def main():
    args = sys.argv[1:]; jobs = 8
    if args and args[0] == '-j':
        jobs = int(args[1]); args = args[2:]
    refs = args or sorted(os.listdir('/verif/refactorings'))
    bases, work = {}, []
    for ref in refs:
        b = base_tree(ref)
        if not b:
            continue
        bases[ref] = b
        ts = touched(ref)
        for m in MUTS:
            if m['file'] not in ts:
                continue
            try:
                src = open(os.path.join(b, m['file'])).read()
            except OSError:
                continue
            if src.count(m['old']) != 1 or (m.get('old2') and src.count(m['old2']) != 1):
                continue
            work.append((ref, b, m))
    with ThreadPoolExecutor(max_workers=jobs) as ex:
        res = list(ex.map(run_one, work))
    for b in bases.values():
        shutil.rmtree(b, ignore_errors=True)
    cnt = {}
    for ref, mid, st in res:
        cnt[st] = cnt.get(st, 0) + 1
        if st != 'fired':
            print('%-5s %-7s %s' % (ref, mid, st))
    print('CROSSED MUTANTS:', cnt)

if __name__ == '__main__':
    main()
