#!/usr/bin/env python3
"""Confirm a seeded change in its scratch worktree: patch applies, builds, the pinned suite
passes with it, the demonstration fails with it and passes without it. Then copy it to
/verif/seeded/<name>/ and run every check against /repo with the patch applied.
Usage: seedverify.py <worktree> <name>"""
import subprocess, sys, os, json, shutil, re
wt, name = sys.argv[1], sys.argv[2]
out = os.path.join(wt, '_out')
env = dict(os.environ, GOFLAGS='-mod=mod', GOPROXY='off', GOSUMDB='off', GOTOOLCHAIN='local', GOWORK='off')
def run(cmd, **kw):
    return subprocess.run(cmd, cwd=wt, env=env, capture_output=True, text=True, **kw)
meta = json.load(open(os.path.join(out, 'meta.json')))
patch = os.path.join(out, 'patch.diff')
run(['git', 'checkout', '--', '.'])
st = run(['git', 'status', '--porcelain']).stdout
demo_files = [f for f in os.listdir(out) if f.endswith('.go')]
dp = open(os.path.join(out, 'demo_path.txt')).read()
# demo destination: first token that looks like a path ending in .go
mm = re.findall(r'[\w./-]+\.go', dp)
dest = None
for cand in mm:
    if os.path.basename(cand) in demo_files:
        dest = cand.lstrip('./'); break
if dest is None and demo_files:
    print("cannot determine demo path from demo_path.txt:", dp); sys.exit(2)
src = os.path.join(out, os.path.basename(dest))
pkgdir = './' + os.path.dirname(dest)
testname = 'TestSeeded'
res = {}
a = run(['git', 'apply', '--check', patch])
res['applies'] = a.returncode == 0
run(['git', 'apply', patch])
b = run(['go', 'build', './...']); res['builds'] = b.returncode == 0
t = run(['go', 'test', '-vet=off', '-count=1', '-p', '1', './...']); res['suite_passes_with_patch'] = t.returncode == 0
if t.returncode != 0:
    res['suite_output'] = (t.stdout + t.stderr)[-600:]
shutil.copy(src, os.path.join(wt, dest))
d1 = run(['go', 'test', '-vet=off', '-count=1', '-run', testname, pkgdir]); res['demo_fails_with_patch'] = d1.returncode != 0
res['demo_with_patch_tail'] = (d1.stdout + d1.stderr)[-400:]
run(['git', 'apply', '-R', patch])
d2 = run(['go', 'test', '-vet=off', '-count=1', '-run', testname, pkgdir]); res['demo_passes_without_patch'] = d2.returncode == 0
if d2.returncode != 0:
    res['demo_without_patch_tail'] = (d2.stdout + d2.stderr)[-400:]
os.remove(os.path.join(wt, dest))
run(['git', 'checkout', '--', '.'])
ok = all(res[k] for k in ['applies', 'builds', 'suite_passes_with_patch', 'demo_fails_with_patch', 'demo_passes_without_patch'])
print(json.dumps(res, indent=1))
print("CONFIRMED" if ok else "NOT CONFIRMED")
if ok:
    dst = os.path.join(os.environ.get('SEED_DEST', '/verif/seeded'), name)
    os.makedirs(dst, exist_ok=True)
    shutil.copy(patch, dst)
    shutil.copy(src, dst)
    meta['demo_dest'] = dest
    meta['confirmed_by_me'] = {k: res[k] for k in ['applies', 'builds', 'suite_passes_with_patch', 'demo_fails_with_patch', 'demo_passes_without_patch']}
    meta['what_i_ran'] = "tools/seedverify.py in the scratch worktree: git apply; go build ./...; go test -vet=off -count=1 -p 1 ./... (with patch); demonstration with patch (fails) and after git apply -R (passes)"
    if os.environ.get('SEED_BASE'):
        meta['base'] = os.environ['SEED_BASE']  # the refactoring of the corpus the change was made on top of
    if os.environ.get('SKIP_CHECKS'):
        # confirmation only; tools/reseed.py fills checks_fired later
        json.dump(meta, open(os.path.join(dst, 'meta.json'), 'w'), indent=1)
        sys.exit(0)
    c = subprocess.run(['python3', '/verif/tools/seedcheck.py', patch], capture_output=True, text=True)
    meta['checks_fired'] = c.stdout.strip().splitlines()
    json.dump(meta, open(os.path.join(dst, 'meta.json'), 'w'), indent=1)
    print(c.stdout)
