#!/usr/bin/env python3
import json, jsonschema, glob, sys
m=json.load(open('/verif/MANIFEST.json')); s=json.load(open('/root/.vp/MANIFEST.schema.json'))
jsonschema.validate(m,s); print("manifest ok")
s=json.load(open('/root/.vp/EVIDENCE.schema.json'))
for f in sorted(glob.glob('/verif/evidence/C??.json')):
    jsonschema.validate(json.load(open(f)),s)
print("evidence ok")
