#!/bin/sh
# Development helper: apply a patch to a scratch copy of /repo (kept at /tmp/try-<name> until
# the next call with the same name), run the given properties with ${IBCHECK:-bin/ibcheck} and
# print the violated/undecided obligations with their details.
# Usage: tools/try.sh <patch.diff> <name> <prop> [<prop>...]
set -u
patch="$1"; name="$2"; shift 2
. /verif/env.sh
d=/tmp/try-$name
rm -rf "$d"; mkdir -p "$d"
rsync -a --exclude .git /repo/ "$d/repo/"
( cd "$d/repo" && patch -p1 -s -i "$patch" ) || { echo "PATCH FAILED"; exit 2; }
for p in "$@"; do
  "${IBCHECK:-/verif/bin/ibcheck}" -prop "$p" -verif /verif -repo "$d/repo" -out "$d/out" 2>&1 | grep -A3 -E "VIOLATED|UNDECIDED|PANIC" | cut -c1-900
done
