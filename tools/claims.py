# Claims per property (executed by gen_manifest.py). Keep each in step with the rule file.
claim("C06",
      "CFG reach-avoid + dominance over go/ssa: size-gate branches on config.SMTP.MaxMessageBytes",
      "Decides, over every CFG path of the SMTP MAIL handler, the DATA-read function and the function that calls Manager.Deliver, that (D1) the declared-SIZE branch is strict and its over-limit edge cannot reach the MAIL transition, (D2) a branch comparing the received byte count with MaxMessageBytes keeps every over-limit path away from Deliver, (D3) the over-limit path answers 5xx, resets the envelope and never enters QUIT. A necessary structural condition of C06 for all sizes and limits; not a proof of byte-exact boundaries.",
      "Trusts go/types+go/ssa construction (x/tools v0.29.0), that only Manager.Deliver adds mail (decided by C01), and that package-level error sentinels are non-nil.",
      "DESIGN.md section 4, C06")
