# Claims per property (executed by gen_manifest.py). Keep each in step with the rule file.
claim("C06",
      "CFG reach-avoid + dominance over go/ssa: size-gate branches on config.SMTP.MaxMessageBytes",
      "Decides, over every CFG path of the SMTP MAIL handler, the DATA-read function and the function that calls Manager.Deliver, that (D1) the declared-SIZE branch is strict and its over-limit edge cannot reach the MAIL transition, (D2) a branch comparing the received byte count with MaxMessageBytes keeps every over-limit path away from Deliver, (D3) the over-limit path answers 5xx, resets the envelope and never enters QUIT. A necessary structural condition of C06 for all sizes and limits; not a proof of byte-exact boundaries.",
      "Trusts go/types+go/ssa construction (x/tools v0.29.0), that only Manager.Deliver adds mail (decided by C01), and that package-level error sentinels are non-nil.",
      "DESIGN.md section 4, C06")
claim("C07",
      "path-sensitive nil-state analysis over go/ssa (all CFG paths, interprocedural tuples), dominance by found-witness, field-writer sets; sibling cross-check over every storage.Store implementer",
      "Decides the not-found contract and id discipline of both back-ends plus the suite's reference stub: no path of GetMessage yields (nil, nil); every success-capable return of MarkSeen/RemoveMessage is dominated by an id-equality branch or non-nil test of the message looked up by that id and ErrNotExist is returned otherwise; the memory store's id counter has a single incrementing writer under the write lock; removals are keyed by the requested id. Necessary structural conditions of C07 for every history; list order, round trips and observational equivalence are not decided.",
      "Trusts go/ssa; assumes message containers hold no nil entries, error sentinels are non-nil, and library (T, error) functions return a usable T with a nil error.",
      "DESIGN.md section 4, C07")
claim("C14",
      "path-sensitive nil-state analysis of every web.Handler against producer tuples over all Store implementers; sentinel-comparison path facts for 404 discipline; route/client table agreement; AST field coverage of JSON literals",
      "Decides for every path of every registered web.Handler that Manager results are dereferenced only where non-nil (so a missing message cannot panic a handler), that storage.ErrNotExist never surfaces as 500 or as success without 404, that each client request matches a registered route with the body and JSON field the handler requires, that handlers address mailboxes through MailboxForAddress, and that JSON responses set every model field from the like-named metadata field. Does not decide equality of returned data or URL escaping.",
      "Trusts go/ssa and the VTA/CHA resolution of interface calls to all module implementers; same assumptions as C07.",
      "DESIGN.md section 4, C14")
claim("C08",
      "writer-set classification of the mailbox container, CFG must-pass-through (reach-avoid with nothing-removed edge filter), value-origin tracing; enforcer loop shape",
      "Decides that every writer of mem.mbox.messages is classified, that every removal outside the enforcer reaches enforcerRemove of each removed message on all paths and the insert reaches enforcerDeliver, that the enforcer is push-back/evict-front with a strict `curSize > maxSize` guard and a subtraction paired with every effective list removal, and that cap eviction is oldest-first with the relation matching its position relative to the insert in both stores. These are necessary for 'accounting never drifts' and 'oldest first'; numeric bounds over histories are not decided.",
      "Trusts go/ssa, container/list semantics, and that the enforcer goroutine is started once.",
      "DESIGN.md section 4, C08")
claim("C09",
      "lock-held path analysis (reach-avoid between acquire/release incl. deferred releases), guarded-by field rule, closure-mode table for withMailbox, goroutine-confinement of post-publication fields, call-graph reach under lock",
      "Decides the lock discipline of both stores for every path: guarded-by for Store.boxes and mem.mbox fields, the verified shape of withMailbox, no blocking operation or lock re-acquisition reachable under a lock, every file.Store method operating on its mbox under the bucket lock in the required mode with release on all exits, visitors called lock-free, post-publication Message fields atomic/confined/locked, and the enforcer's list element checked for nil. Linearizability and general race freedom are not decided.",
      "Trusts go/ssa, the VTA/CHA call graph for reach-under-lock, sync.Mutex/RWMutex semantics.",
      "DESIGN.md section 4, C09")
claim("C16",
      "writer-set classification of both mailbox containers, must-pass-through pairing with value-origin tracing, emitter who-may-call, goroutine-per-event detection in the generic broker instantiations",
      "Decides that every removal site of either back-end is paired on all paths with AfterMessageDeleted.Emit of the removed message (directly or in every caller), that Deliver emits AfterMessageStored carrying the AddMessage id after every successful store and nothing else emits it, and that the async broker does not spawn a goroutine per event (currently a recorded known finding). Exactly-once at run time and cross-broker ordering are not decided.",
      "Trusts go/ssa; the generic broker is analysed through its instantiations.",
      "DESIGN.md section 4, C16")
claim("C11",
      "file-system effect inventory with path-class classification of arguments; dominance/ordering predicates over go/ssa",
      "Decides that the file store's write protocol has the crash-safe shape: nothing truncates the live index (temp file, successful flush+close, then rename), the raw file is complete before the index names it and is removed on every later error return, the index is updated before a raw file is unlinked and unlinked before a mailbox directory is removed, and every fs-mutating call in the package is in the classified inventory. Crash points themselves are not enumerated; fsync durability and partial temp writes are not decided.",
      "Trusts go/ssa and POSIX rename atomicity; assumes an absent index reads as an empty mailbox.",
      "DESIGN.md section 4, C11")
claim("C15",
      "field-access confinement to enqueued closures (actor rule), channel-operation inventory per channel identity, blocking-op detection in every msghub.Listener implementer, close/send race and receive-as-closed-test rules",
      "Decides that hub state is touched only inside operation closures queued on the hub's single-consumer channel, and, for every implementer of msghub.Listener discovered in the module, that Receive/Delete cannot block, that no listener channel with a close site is sent to by another function, and that no data channel is used as its own 'closed' flag. The three listener rules currently report the WebSocket v1/v2 listeners as recorded known findings (demonstrated against the real code); any other violation still fails. Exactly-once/in-order delivery to peers is not decided.",
      "Trusts go/ssa and channel identity by struct field; Listener methods are assumed to be called only from hub operations.",
      "DESIGN.md section 4, C15")
claim("C19",
      "dominance (Add before go, deferred Done on all exits), CFG must-pass-through (listener close, Drain/Join in main, close-on-exit), select-arm analysis, channel close/send inventory",
      "Decides for both servers that every session spawn is preceded by wg.Add in the spawning goroutine with a deferred Done in the spawned function, that Drain waits and main reaches both Drains and Join on every path, that the listener is closed on every path after ctx.Done() and the accept loop returns quietly on shutdown, that no hub channel producers send on is closed at cancellation, and that the retention scanner observes ctx at each blocking point and closes its shutdown channel on every exit. Timing and TCP behaviour are not decided.",
      "Trusts go/ssa, sync.WaitGroup semantics.",
      "DESIGN.md section 4, C19")
claim("C04",
      "must-sanitise value flow (case normaliser on every path from the address parameter to a returned name), emptiness domain over SSA strings with dominating guards and validator summaries, single-writer and who-feeds rules for the naming authority",
      "Decides that delivery and every anchored read interface compute the mailbox name with the same function (one authority), that every flow from the input address to a successfully returned name passes a case normaliser, and that successful results (and the base name of the local part) are provably non-empty. Necessary conditions of canonical naming for all inputs; idempotence over all strings and quoting corners are not decided.",
      "Trusts go/ssa; treats strings.ToLower/ToUpper/Map as case normalisers.",
      "DESIGN.md section 4, C04")
claim("C02",
      "backward value-flow with transformer classification (pass-through / lossy / unclassified tables) over go/ssa; structural checks of the reader concatenation, store sinks, source handlers and the POP3 line loop",
      "Decides that no lossy operation lies on any byte path from the dot-decoded SMTP DATA block to Manager.Deliver, through Delivery.Reader into each store's sink, and back out through Source(), the REST/web source endpoints and POP3 streaming (token limit raised, dot-stuffing selected by HasPrefix, terminator on every exit); sizes are defined from the same bytes. An unknown consumer of the tracked bytes is undecided. Byte equality for every body and CR/LF normalisation details are not decided.",
      "Trusts go/ssa, the pass-through table (bytes.NewBuffer, Buffer.Bytes, bytes.NewReader, io.ReadAll, io.NopCloser, io.Copy), enmime.DecodeHeaders being read-only, and textproto dot-decoding.",
      "DESIGN.md section 4, C02")
claim("C01",
      "who-may-call over the VTA/CHA call graph, dominance, loop-nesting and value-flow checks of StoreManager.Deliver, typestate abstract interpretation of the SMTP session (shared with C03)",
      "Decides the routing skeleton of a delivery for every path and call site: only StoreManager.Deliver calls a store's AddMessage and only the DATA-reading SMTP function calls Deliver, never on the error edge of the DATA read; one AddMessage site in one loop over the post-hook Mailboxes; without an extension answer the destinations are exactly recip.Mailbox of recipients whose ShouldStore() is true; 2xx only where Deliver returned nil; recipients are appended only in MAIL state and the envelope is empty at every read outside a transaction and after Deliver; stored metadata comes from the post-hook message. What the stores retain is decided by C02/C07, not here.",
      "Trusts go/ssa and the call graph's over-approximation of interface dispatch; one Session per goroutine.",
      "DESIGN.md section 4, C01")
claim("C03",
      "typestate abstract interpretation over go/ssa: interprocedural, disjunctive configurations (Session.state, recipients empty/non-empty, replies since last read) with branch refinement on fresh loads; structural reset/discard rules; dominance for atomicity",
      "Decides for every command history (command strings are not tracked, so every arm is possible in every state) that MAIL is entered only from READY, recipients appended only in MAIL, DATA entered only from MAIL with recipients, Deliver called only in DATA; that the envelope reset is complete, that outside a transaction the recipient list is empty at every input read and that RSET/EHLO/HELO with an open envelope and the end of DATA pass the reset; that exactly one final reply precedes every input read; and that Deliver is unreachable from a failed DATA read. Liveness, callee panic-freedom and parser index bounds are not decided here.",
      "Trusts go/ssa; reply classes are read from constant reply prefixes; one Session per goroutine.",
      "DESIGN.md section 4, C03")
claim("C13",
      "typestate abstract interpretation of the POP3 session (state, snapshot loaded), who-may-call and dominance for the commit path, control-dependence on retain[i] in every loop over the snapshot, guard-based bounds argument for argument-derived indices",
      "Decides for every command history that the snapshot is loaded only in AUTHORIZATION and always followed by rebuilding marks of equal length; that Store.RemoveMessage is reachable only through the delete processor (per message under !retain[i], with that element's id), which runs only in TRANSACTION under the QUIT comparison on the success edge of the line read and is followed by QUIT; that marking and counting stay paired and RSET rebuilds the marks; that every listed line and accumulated total is conditional on retain[i] with number i+1 and the right accessor; that argument-derived indices are within 1..len(snapshot); and that listings end with the terminator. The store underneath a live snapshot and TLS are not decided.",
      "Trusts go/ssa; one Session per goroutine; ParseInt(…,32) fits int.",
      "DESIGN.md section 4, C13")
claim("C05",
      "exhaustive evaluation of the loop-free policy predicates over all truth assignments of their atoms (no solver), parameter-use and writer/reader set agreement for lower-casing, dominance and reach-avoid with edge filters for the RCPT/MAIL guards",
      "Decides that every domain list the policy reads is lower-cased at load time and every predicate folds its argument, that the accept/store predicates equal the documented rule on all 8 assignments of (default flag, in-list, in-other-list) with membership tested on the folded domain, that the origin predicate refuses exactly on a wildcard match with (pattern=list element, subject=domain), that a recipient is appended / a sender accepted only if the policy agreed or an extension answered Allow, and that the recipient limit is strict. The wildcard matcher's arithmetic is not decided.",
      "Trusts go/ssa; configuration immutable after Process; SliceContains exactness is itself checked.",
      "DESIGN.md section 4, C05")
claim("C12",
      "dominance/control-dependence on a recognised expiry predicate (normalised forms), edge-relation check for the disabled case, select-arm analysis for cancellation, lock-held and slice-origin analysis for the visitor",
      "Decides that the scan removes a message only on the true edge of an older-than-(now−period) test of that same message and addresses it by its own mailbox and id, that the scan is reachable only where retentionPeriod > 0, that every blocking point of the scanner observes ctx.Done() and every exit of Start closes the channel Join waits on, and that both stores call the visitor lock-free with a fresh slice. Clock boundaries, scans racing with directory changes, and promptness in seconds are not decided.",
      "Trusts go/ssa and time package semantics.",
      "DESIGN.md section 4, C12")
claim("C10",
      "must-pass-through (mutation → writeIndex) over go/ssa with caller lifting, codec writer/reader table agreement, struct-field exportedness and type tables, guard-before-read fixpoint, normalised SSA expression comparison of the two mailbox constructors",
      "Decides that every mutation of a file-store mailbox is persisted before a success return, that the index writer and reader agree on record order and types and that every persisted field is exported and is what the getters return, that the store keeps no mailbox state in memory and loads the index before every use, that opening the store destroys nothing, and that the by-name and by-hash constructors compute the same paths and lock. Equality of data read back after a restart is not decided.",
      "Trusts go/ssa and encoding/gob round-tripping exported fields.",
      "DESIGN.md section 4, C10")
claim("C17",
      "loop/edge structure of the generic synchronous broker (through its instantiations), dominance and reach-avoid on the effective-action value in the SMTP handlers, struct-literal field check for Protect, nil-state tuples of the unwrap helpers, guarded-by and pop/shrink ordering for the Lua state pool",
      "Decides that the first answering hook wins and no later hook is called, that Deny/Allow/Defer are mapped literally in the MAIL and RCPT handlers (hook's code and text, no state change on Deny; policy only under Defer; Allow bypasses policy), that the store-policy filter runs only without a hook answer, that every Lua call is protected and failures yield 'no answer', and that pooled Lua states are handed to one user at a time and returned exactly once. Lua semantics and script grammar are not decided.",
      "Trusts go/ssa; gopher-lua's Protect semantics.",
      "DESIGN.md section 4, C17")
claim("C18",
      "call-table check of the bluemonday policy construction (constant arguments), structural return check of sanitize.HTML, forward taint from tokenizer attribute values with html.EscapeString as sanitiser, allow-list lookup dominance and state-entry analysis of the CSS filter, parameter-use analysis of TextToHTML and of the UI handler",
      "Decides the configuration and plumbing of the sanitiser for every path: the policy is UGCPolicy plus only table-listed, non-forbidden extensions; sanitize.HTML cannot return without both the style filter and policy.Sanitize; attribute values reach the output only escaped and style values only through the CSS filter; CSS identifiers are copied only under the allow-list lookup of their lower-cased name; TextToHTML escapes before anything else and inserts only constant markup; the UI handler uses the bodies only through these functions. Parser-differential bypasses and bluemonday internals are not decided.",
      "Trusts go/ssa; bluemonday.UGCPolicy and html.EscapeString do what they document.",
      "DESIGN.md section 4, C18")
