#!/usr/bin/env python3
"""Ad-hoc mutation helper for developing the checks: apply one textual edit to a file in
/repo, build, run the named property checks, print their verdict lines, and restore the
file (git checkout). Usage: mutate.py <relpath> <old> <new> <prop> [<prop>...]"""
import subprocess, sys, os
rel, old, new, props = sys.argv[1], sys.argv[2], sys.argv[3], sys.argv[4:]
path = os.path.join('/repo', rel)
src = open(path).read()
if src.count(old) < 1:
    print("ANCHOR NOT FOUND"); sys.exit(2)
open(path, 'w').write(src.replace(old, new, 1))
env = dict(os.environ, GOFLAGS='-mod=mod', GOPROXY='off', GOSUMDB='off', GOTOOLCHAIN='local', GOWORK='off')
try:
    b = subprocess.run(['go', 'build', './...'], cwd='/repo', env=env, capture_output=True, text=True)
    if b.returncode != 0:
        print("MUTANT DOES NOT COMPILE:\n" + b.stderr[:600])
    else:
        for p in props:
            r = subprocess.run(['/verif/bin/ibcheck', '-prop', p, '-verif', '/verif', '-out', '/tmp/mut-verif'], capture_output=True, text=True)
            lines = [l for l in r.stdout.splitlines() if l.startswith('  VIOLATED') or l.startswith('  UNDECIDED') or l.startswith(p)]
            print('\n'.join(l[:230] for l in lines) or '(no output)')
            print("exit=%d" % r.returncode)
finally:
    subprocess.run(['git', '-C', '/repo', 'checkout', '--', rel])
