#!/usr/bin/env python3
"""Re-run single sweep mutants against the current checker (development helper).
Usage: amtest.py <results.jsonl> <file-suffix:line[:op]> ...   — each selected mutant is applied to a
scratch copy of /repo, built, and checked with bin/ibcheck -prop all; prints what fires."""
import json, os, subprocess, sys, tempfile, shutil
ENV = dict(os.environ, GOFLAGS='-mod=mod', GOPROXY='off', GOSUMDB='off', GOTOOLCHAIN='local', GOWORK='off')
rows = [json.loads(l) for l in open(sys.argv[1])]
tmp = tempfile.mkdtemp(prefix='amtest-')
try:
    gomut = os.path.join(tmp, 'gomut')
    subprocess.run(['go', 'build', '-o', gomut, '.'], cwd='/verif/tools/gomut', env=ENV, check=True)
    repo = os.path.join(tmp, 'repo')
    subprocess.run(['rsync', '-a', '--exclude', '.git', '/repo/', repo + '/'], check=True)
    for sel in sys.argv[2:]:
        parts = sel.split(':')
        for r in rows:
            if not r['file'].endswith(parts[0]) or r['line'] != int(parts[1]) or (len(parts) > 2 and r['op'] != parts[2]):
                continue
            path = os.path.join(repo, r['file'])
            orig = open('/repo/' + r['file'], 'rb').read()
            mut = subprocess.run([gomut, '-apply', str(r['id']), '/repo/' + r['file']], capture_output=True).stdout
            open(path, 'wb').write(mut)
            b = subprocess.run(['go', 'build', './...'], cwd=repo, env=ENV, capture_output=True, text=True)
            out = os.path.join(tmp, 'out'); shutil.rmtree(out, ignore_errors=True)
            fired = []
            if b.returncode == 0:
                subprocess.run(['/verif/bin/ibcheck', '-prop', 'all', '-verif', '/verif', '-repo', repo, '-out', out], capture_output=True, text=True, env=ENV)
                evd = os.path.join(out, 'evidence')
                for f in sorted(os.listdir(evd)):
                    if f.endswith('.violations.json'):
                        for o in json.load(open(os.path.join(evd, f)))['violations']:
                            fired.append(o['key'])
            else:
                fired = ['NOCOMPILE']
            print('%s:%d [%s] %s -> %s :: %s' % (r['file'], r['line'], r['op'], r['old'][:50].replace('\n', ' '), r['new'][:20], ', '.join(fired) or 'NOTHING'))
            open(path, 'wb').write(orig)
finally:
    shutil.rmtree(tmp, ignore_errors=True)
