module gomut

go 1.23
