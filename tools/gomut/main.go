// gomut: a small syntactic mutation generator for the automatic mutation sweep
// (tools/automut.py). Development helper; no check depends on it.
//
//	gomut -list file.go          one JSON line per mutation site
//	gomut -apply N file.go       the mutated file on stdout
//
// Operators (all textual splices at AST positions, so formatting is preserved):
//
//	del-stmt    delete an expression / assignment / inc-dec / send / defer / go statement
//	undefer     `defer f()` -> `f()`;  ungo: `go f()` -> `f()`
//	neg-cond    if/for condition c -> !(c)
//	relop       < <-> <=, > <-> >=, == <-> !=, && <-> ||
//	bool        true <-> false
//	empty-body  if-body / else-body / case-body emptied
//	brk-cont    break <-> continue (unlabelled)
//	ret-nil     `return <err-ish ident>` as last result -> nil (only identifiers named err)
//	int         integer literal n -> n+1 (small literals only)
package main

import (
	"encoding/json"
	"flag"
	"fmt"
	"go/ast"
	"go/parser"
	"go/token"
	"os"
	"strconv"
	"strings"
)

type site struct {
	ID   int    `json:"id"`
	Op   string `json:"op"`
	Line int    `json:"line"`
	Func string `json:"func"`
	Old  string `json:"old"`
	New  string `json:"new"`
	s, e int
}

func main() {
	list := flag.Bool("list", false, "list mutation sites")
	apply := flag.Int("apply", -1, "apply mutation N")
	flag.Parse()
	path := flag.Arg(0)
	src, err := os.ReadFile(path)
	if err != nil {
		fmt.Fprintln(os.Stderr, err)
		os.Exit(2)
	}
	fset := token.NewFileSet()
	f, err := parser.ParseFile(fset, path, src, parser.ParseComments)
	if err != nil {
		fmt.Fprintln(os.Stderr, err)
		os.Exit(2)
	}
	var sites []site
	off := func(p token.Pos) int { return fset.Position(p).Offset }
	curFn := ""
	add := func(op string, s, e token.Pos, repl string) {
		so, eo := off(s), off(e)
		old := string(src[so:eo])
		if len(old) > 160 {
			old = old[:160] + "…"
		}
		sites = append(sites, site{ID: len(sites), Op: op, Line: fset.Position(s).Line, Func: curFn, Old: old, New: repl, s: so, e: eo})
	}
	text := func(n ast.Node) string { return string(src[off(n.Pos()):off(n.End())]) }
	for _, d := range f.Decls {
		fd, ok := d.(*ast.FuncDecl)
		if !ok || fd.Body == nil {
			continue
		}
		curFn = fd.Name.Name
		if fd.Recv != nil && len(fd.Recv.List) > 0 {
			curFn = strings.TrimPrefix(text(fd.Recv.List[0].Type), "*") + "." + curFn
		}
		ast.Inspect(fd.Body, func(n ast.Node) bool {
			switch x := n.(type) {
			case *ast.ExprStmt:
				if c, ok := x.X.(*ast.CallExpr); ok {
					t := text(c.Fun)
					// logging and metrics are not behaviour any property observes
					if strings.Contains(t, "log.") || strings.Contains(t, "slog.") || strings.Contains(t, "Msg") || strings.HasPrefix(t, "exp") {
						return true
					}
				}
				add("del-stmt", x.Pos(), x.End(), "")
			case *ast.AssignStmt:
				if x.Tok != token.DEFINE {
					add("del-stmt", x.Pos(), x.End(), "")
				}
			case *ast.IncDecStmt:
				add("del-stmt", x.Pos(), x.End(), "")
			case *ast.SendStmt:
				add("del-stmt", x.Pos(), x.End(), "")
			case *ast.DeferStmt:
				add("del-stmt", x.Pos(), x.End(), "")
				add("undefer", x.Pos(), x.Call.Pos(), "")
			case *ast.GoStmt:
				add("ungo", x.Pos(), x.Call.Pos(), "")
			case *ast.IfStmt:
				add("neg-cond", x.Cond.Pos(), x.Cond.End(), "!("+text(x.Cond)+")")
				if len(x.Body.List) > 0 {
					add("empty-body", x.Body.Lbrace+1, x.Body.Rbrace, "")
				}
				if eb, ok := x.Else.(*ast.BlockStmt); ok && len(eb.List) > 0 {
					add("empty-body", eb.Lbrace+1, eb.Rbrace, "")
				}
			case *ast.ForStmt:
				if x.Cond != nil {
					add("neg-cond", x.Cond.Pos(), x.Cond.End(), "!("+text(x.Cond)+")")
				}
			case *ast.CaseClause:
				if len(x.Body) > 0 {
					add("empty-body", x.Body[0].Pos(), x.Body[len(x.Body)-1].End(), "")
				}
			case *ast.CommClause:
				if len(x.Body) > 0 {
					add("empty-body", x.Body[0].Pos(), x.Body[len(x.Body)-1].End(), "")
				}
			case *ast.BinaryExpr:
				var r string
				switch x.Op {
				case token.LSS:
					r = "<="
				case token.LEQ:
					r = "<"
				case token.GTR:
					r = ">="
				case token.GEQ:
					r = ">"
				case token.EQL:
					r = "!="
				case token.NEQ:
					r = "=="
				case token.LAND:
					r = "||"
				case token.LOR:
					r = "&&"
				}
				if r != "" {
					add("relop", x.OpPos, x.OpPos+token.Pos(len(x.Op.String())), r)
				}
			case *ast.Ident:
				if x.Name == "true" {
					add("bool", x.Pos(), x.End(), "false")
				} else if x.Name == "false" {
					add("bool", x.Pos(), x.End(), "true")
				}
			case *ast.BranchStmt:
				if x.Label == nil {
					if x.Tok == token.BREAK {
						add("brk-cont", x.Pos(), x.End(), "continue")
					} else if x.Tok == token.CONTINUE {
						add("brk-cont", x.Pos(), x.End(), "break")
					}
				}
			case *ast.ReturnStmt:
				if k := len(x.Results); k > 0 {
					if id, ok := x.Results[k-1].(*ast.Ident); ok && id.Name == "err" {
						add("ret-nil", id.Pos(), id.End(), "nil")
					}
				}
			case *ast.BasicLit:
				if x.Kind == token.INT {
					if v, err := strconv.Atoi(x.Value); err == nil && v >= 0 && v <= 16 {
						add("int", x.Pos(), x.End(), strconv.Itoa(v+1))
					}
				}
			}
			return true
		})
	}
	if *list {
		enc := json.NewEncoder(os.Stdout)
		for _, s := range sites {
			enc.Encode(s)
		}
		return
	}
	if *apply >= 0 && *apply < len(sites) {
		s := sites[*apply]
		os.Stdout.Write(src[:s.s])
		os.Stdout.WriteString(s.New)
		os.Stdout.Write(src[s.e:])
		return
	}
	fmt.Fprintln(os.Stderr, "nothing to do")
	os.Exit(2)
}
