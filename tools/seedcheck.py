#!/usr/bin/env python3
"""Apply a seeded patch to /repo, build, run every property check (one process), print which
obligations fire, then restore /repo. Usage: seedcheck.py <patch.diff> [prop ...]"""
import subprocess, sys, os, json, tempfile, shutil
patch = os.path.abspath(sys.argv[1]); props = sys.argv[2:] or ['all']
env = dict(os.environ, GOFLAGS='-mod=mod', GOPROXY='off', GOSUMDB='off', GOTOOLCHAIN='local', GOWORK='off')
st = subprocess.run(['git','-C','/repo','status','--porcelain'],capture_output=True,text=True).stdout.strip()
if st:
    print("REPO NOT CLEAN:\n"+st); sys.exit(2)
a = subprocess.run(['git','-C','/repo','apply',patch],capture_output=True,text=True)
if a.returncode != 0:
    print("PATCH DOES NOT APPLY:\n"+a.stderr); sys.exit(2)
tmp = tempfile.mkdtemp(prefix='seedcheck-')
try:
    b = subprocess.run(['go','build','./...'],cwd='/repo',env=env,capture_output=True,text=True)
    if b.returncode != 0:
        print("DOES NOT COMPILE:\n"+b.stderr[:800]); sys.exit(2)
    fired = {}
    for p in props:
        r = subprocess.run(['/verif/bin/ibcheck','-prop',p,'-verif','/verif','-out',tmp],capture_output=True,text=True)
        if r.returncode not in (0, 1):
            print('CHECKER CRASHED (exit %d) on -prop %s:\n%s' % (r.returncode, p, (r.stderr or r.stdout)[-600:]))
        if not os.path.isdir(os.path.join(tmp,'evidence')):
            print('CHECKER PRODUCED NO EVIDENCE:\n'+r.stdout[-500:]+r.stderr[-500:]); continue
        for f in sorted(os.listdir(os.path.join(tmp,'evidence'))):
            if f.endswith('.violations.json'):
                v = json.load(open(os.path.join(tmp,'evidence',f)))
                fired[v['property_id']] = [(o['outcome'], o['key'], o.get('detail','')[:160]) for o in v['violations']]
    if not fired:
        print("NO CHECK FIRED")
    for pid, obs in fired.items():
        for o in obs:
            print("%s %s %s\n      %s" % (pid, o[0].upper(), o[1], o[2]))
finally:
    subprocess.run(['git','-C','/repo','checkout','--','.'])
    # remove files the patch may have added
    subprocess.run(['git','-C','/repo','clean','-fdq'])
    shutil.rmtree(tmp, ignore_errors=True)
