#!/usr/bin/env python3
"""Run all (or given) checks against each behaviour-preserving refactoring; any firing is a
false alarm. Usage: refcheck.py [-p C01,C02] [R1 ...]"""
import subprocess, sys, os
args=sys.argv[1:]; props=[]
if args and args[0]=='-p':
    props=args[1].split(','); args=args[2:]
names=args or sorted(os.listdir('/verif/refactorings'))
tot=0
for n in names:
    c=subprocess.run(['python3','/verif/tools/seedcheck.py','/verif/refactorings/%s/patch.diff'%n]+props,capture_output=True,text=True)
    lines=[l for l in c.stdout.splitlines() if l[:1]=='C' or 'NOT' in l or 'COMPILE' in l or 'CRASHED' in l]
    tot+=len(lines)
    print("== %s: %d false alarm(s)"%(n,len(lines)))
    for l in lines: print("   "+l[:200])
print("TOTAL", tot)
